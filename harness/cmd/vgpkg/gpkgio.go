package main

import (
	"database/sql"
	"fmt"
	sqlite3 "github.com/mattn/go-sqlite3"
	"math"
	"reflect"
	"sort"
	"strings"
	"time"

	"verifharness/fw"

	"github.com/go-spatial/geom"
	ggpkg "github.com/go-spatial/geom/encoding/gpkg"
	_ "github.com/mattn/go-sqlite3"
)

type ColSpec struct {
	Name    string
	Type    string // INTEGER REAL TEXT
	NotNull bool
}

type RowSpec struct {
	FID  int64
	Vals []any // per attribute column: int64 / float64 / string / nil
	Geom geom.Geometry
}

type TableSpec struct {
	Name      string
	GeomCol   string
	GeomType  string // POLYGON MULTIPOLYGON POINT LINESTRING
	SRS       int
	Cols      []ColSpec
	Rows      []RowSpec
	GeomFirst bool // geometry column declared before the attributes
	// TypeNameCase: how gpkg_geometry_columns.geometry_type_name is spelled in the source: 0 upper case (as the
	// specification wants it), 1 "MultiPolygon" style, 2 lower case. Readers compare these names without regard to case.
	TypeNameCase int
}

func (t *TableSpec) typeNameAsWritten() string {
	switch t.TypeNameCase {
	case 1:
		return map[string]string{"POLYGON": "Polygon", "MULTIPOLYGON": "MultiPolygon", "POINT": "Point", "LINESTRING": "LineString"}[t.GeomType]
	case 2:
		return strings.ToLower(t.GeomType)
	}
	return t.GeomType
}

var srsRD = ggpkg.SpatialReferenceSystem{Name: "Amersfoort / RD New", ID: 28992, Organization: "EPSG", OrganizationCoordsysID: 28992,
	Definition: `PROJCS["Amersfoort / RD New",GEOGCS["Amersfoort",DATUM["Amersfoort",SPHEROID["Bessel 1841",6377397.155,299.1528128]]],PROJECTION["Oblique_Stereographic"]]`, Description: "Dutch national grid"}
var srsETRS = ggpkg.SpatialReferenceSystem{Name: "ETRS89-extended / LAEA Europe", ID: 3035, Organization: "EPSG", OrganizationCoordsysID: 3035, Definition: `PROJCS["ETRS89-extended / LAEA Europe"]`, Description: ""}

// rows whose srs_id differs from organization_coordsys_id: legal, written by tools that number their own definitions
var srsLocalRD = ggpkg.SpatialReferenceSystem{Name: "RD New, locally numbered", ID: 100001, Organization: "EPSG", OrganizationCoordsysID: 28992, Definition: `PROJCS["Amersfoort / RD New"]`, Description: "local id"}
var srsCustom = ggpkg.SpatialReferenceSystem{Name: "engineering grid", ID: 900913, Organization: "NONE", OrganizationCoordsysID: 1, Definition: `LOCAL_CS["engineering grid"]`, Description: ""}

func srsRowString(r ggpkg.SpatialReferenceSystem) string {
	return fmt.Sprintf("%s|%s|%d|%s|%s", r.Name, r.Organization, r.OrganizationCoordsysID, r.Definition, r.Description)
}

func geomTypeOf(s string) ggpkg.GeometryType {
	switch s {
	case "POLYGON":
		return ggpkg.Polygon
	case "MULTIPOLYGON":
		return ggpkg.MultiPolygon
	case "POINT":
		return ggpkg.Point
	case "LINESTRING":
		return ggpkg.Linestring
	}
	return ggpkg.Geometry
}

func (t *TableSpec) createSQL() string {
	parts := []string{"fid INTEGER PRIMARY KEY AUTOINCREMENT NOT NULL"}
	g := fmt.Sprintf("%s %s", t.GeomCol, t.GeomType)
	if t.GeomFirst {
		parts = append(parts, g)
	}
	for _, c := range t.Cols {
		p := c.Name + " " + c.Type
		if c.NotNull {
			p += " NOT NULL"
		}
		parts = append(parts, p)
	}
	if !t.GeomFirst {
		parts = append(parts, g)
	}
	return fmt.Sprintf(`CREATE TABLE "%s" (%s)`, t.Name, strings.Join(parts, ", "))
}

// makeSource writes a source GeoPackage with go-spatial's own code (never a file under /repo).
func makeSource(path string, tables []TableSpec) error {
	h, err := ggpkg.Open(path)
	if err != nil {
		return err
	}
	defer h.Close()
	if err := h.UpdateSRS(srsRD, srsETRS, srsLocalRD, srsCustom); err != nil {
		return err
	}
	for i := range tables {
		t := &tables[i]
		if _, err := h.Exec(t.createSQL()); err != nil {
			return fmt.Errorf("create %s: %w", t.Name, err)
		}
		if err := h.AddGeometryTable(ggpkg.TableDescription{Name: t.Name, ShortName: t.Name, Description: t.Name, GeometryField: t.GeomCol, GeometryType: geomTypeOf(t.GeomType), SRS: int32(t.SRS), Z: ggpkg.Prohibited, M: ggpkg.Prohibited}); err != nil {
			return fmt.Errorf("register %s: %w", t.Name, err)
		}
		if t.TypeNameCase != 0 {
			if _, err := h.Exec(`UPDATE gpkg_geometry_columns SET geometry_type_name=? WHERE table_name=?`, t.typeNameAsWritten(), t.Name); err != nil {
				return fmt.Errorf("respell geometry type of %s: %w", t.Name, err)
			}
		}
		cols := []string{"fid"}
		for _, c := range t.Cols {
			cols = append(cols, c.Name)
		}
		cols = append(cols, t.GeomCol)
		q := fmt.Sprintf(`INSERT INTO "%s"(%s) VALUES(%s)`, t.Name, strings.Join(cols, ","), strings.TrimSuffix(strings.Repeat("?,", len(cols)), ","))
		tx, err := h.Begin()
		if err != nil {
			return err
		}
		for _, r := range t.Rows {
			sb, err := ggpkg.NewBinary(int32(t.SRS), r.Geom)
			if err != nil {
				return fmt.Errorf("encode geometry: %w", err)
			}
			args := []any{r.FID}
			for _, v := range r.Vals {
				if tl, ok := v.(timeLit); ok {
					v = string(tl) // stored as the text it is
				}
				args = append(args, v)
			}
			args = append(args, sb)
			if _, err := tx.Exec(q, args...); err != nil {
				return fmt.Errorf("insert into %s: %w", t.Name, err)
			}
		}
		if err := tx.Commit(); err != nil {
			return err
		}
	}
	return nil
}

// ---- reading back with a plain sqlite3 connection ----

type ReadRow struct {
	RowID int64
	FID   int64
	Vals  []any
	Geom  geom.Geometry
	Empty bool
}

type ReadTable struct {
	Exists                   bool
	Columns                  []string // table_info: "cid|name|type|notnull|pk"
	Rows                     []ReadRow
	RTree                    map[int64][4]float64 // id -> minx maxx miny maxy
	HasRTree                 bool
	Contents                 *[4]float64 // min_x min_y max_x max_y (nil when NULL)
	InContents               bool
	GeomColumn, GeomTypeName string
	SRSID                    int
	SRSRow                   string
	DataType                 string
}

// timeLit: the text stored in a column declared DATE / DATETIME / TIMESTAMP. The sqlite driver hands such a value out as
// time.Time; what must survive is the instant (the notation may change).
type timeLit string

func parseTimeLit(s string) (time.Time, bool) {
	s = strings.TrimSuffix(s, "Z")
	for _, f := range sqlite3.SQLiteTimestampFormats {
		if t, err := time.ParseInLocation(f, s, time.UTC); err == nil {
			return t, true
		}
	}
	return time.Time{}, false
}

// sqliteURI: a file: URI for a path that may hold characters with a meaning in URIs (the harness's own read-only access)
func sqliteURI(path string) string {
	r := strings.NewReplacer("%", "%25", "#", "%23", "?", "%3f")
	return "file:" + r.Replace(path)
}

// oddDirs: directory and file names made of characters that are legal in file names but special in URIs, glob patterns,
// format strings or shells. Not the "safe alphabet"; the unchanged tool handles them, so they are fair game.
var oddNames = []string{"run#7", "out[v1]", "a b", "x%41y", "q=1&y", "50%s", "it's", "näme", "tab\\x", "**"}

func normVal(v any) any {
	switch x := v.(type) {
	case []byte:
		return string(x)
	case time.Time:
		return "instant:" + x.UTC().Format(time.RFC3339Nano)
	case timeLit:
		if t, ok := parseTimeLit(string(x)); ok {
			return "instant:" + t.UTC().Format(time.RFC3339Nano)
		}
		return string(x)
	}
	return v
}

func readTable(path string, t *TableSpec) (*ReadTable, error) {
	db, err := sql.Open("sqlite3", sqliteURI(path)+"?mode=ro")
	if err != nil {
		return nil, err
	}
	defer db.Close()
	rt := &ReadTable{RTree: map[int64][4]float64{}}
	var n int
	if err := db.QueryRow(`SELECT count(*) FROM sqlite_master WHERE type='table' AND name=?`, t.Name).Scan(&n); err != nil {
		return nil, err
	}
	if n == 0 {
		return rt, nil
	}
	rt.Exists = true
	rows, err := db.Query(fmt.Sprintf(`PRAGMA table_info("%s")`, t.Name))
	if err != nil {
		return nil, err
	}
	for rows.Next() {
		var cid, notnull, pk int
		var name, ctype string
		var dflt any
		if err := rows.Scan(&cid, &name, &ctype, &notnull, &dflt, &pk); err != nil {
			return nil, err
		}
		rt.Columns = append(rt.Columns, fmt.Sprintf("%d|%s|%s|%d|%d", cid, name, strings.ToUpper(ctype), notnull, pk))
	}
	rows.Close()
	cols := []string{"rowid", "fid"}
	for _, c := range t.Cols {
		cols = append(cols, c.Name)
	}
	cols = append(cols, t.GeomCol)
	rows, err = db.Query(fmt.Sprintf(`SELECT %s FROM "%s" ORDER BY rowid`, strings.Join(cols, ","), t.Name))
	if err != nil {
		return nil, err
	}
	for rows.Next() {
		vals := make([]any, len(cols))
		ptrs := make([]any, len(cols))
		for i := range vals {
			ptrs[i] = &vals[i]
		}
		if err := rows.Scan(ptrs...); err != nil {
			return nil, err
		}
		r := ReadRow{}
		r.RowID, _ = vals[0].(int64)
		r.FID, _ = vals[1].(int64)
		for _, v := range vals[2 : len(vals)-1] {
			r.Vals = append(r.Vals, normVal(v))
		}
		if gb, ok := vals[len(vals)-1].([]byte); ok {
			sb, err := ggpkg.DecodeGeometry(gb)
			if err != nil {
				return nil, fmt.Errorf("row %d: geometry does not decode: %w", r.RowID, err)
			}
			r.Geom = sb.Geometry
			r.Empty = geomIsEmpty(sb.Geometry)
			if int(sb.Header.SRSID()) != t.SRS {
				return nil, fmt.Errorf("row %d: geometry blob has srs %d, table has %d", r.RowID, sb.Header.SRSID(), t.SRS)
			}
		} else {
			r.Empty = true
		}
		rt.Rows = append(rt.Rows, r)
	}
	rows.Close()
	rname := fmt.Sprintf("rtree_%s_%s", t.Name, t.GeomCol)
	if err := db.QueryRow(`SELECT count(*) FROM sqlite_master WHERE name=?`, rname).Scan(&n); err == nil && n > 0 {
		rt.HasRTree = true
		rows, err = db.Query(fmt.Sprintf(`SELECT id, minx, maxx, miny, maxy FROM "%s"`, rname))
		if err != nil {
			return nil, err
		}
		for rows.Next() {
			var id int64
			var b [4]float64
			if err := rows.Scan(&id, &b[0], &b[1], &b[2], &b[3]); err != nil {
				return nil, err
			}
			rt.RTree[id] = b
		}
		rows.Close()
	}
	var minx, miny, maxx, maxy *float64
	var srs int
	err = db.QueryRow(`SELECT data_type, srs_id, min_x, min_y, max_x, max_y FROM gpkg_contents WHERE table_name=?`, t.Name).Scan(&rt.DataType, &srs, &minx, &miny, &maxx, &maxy)
	if err == nil {
		rt.InContents = true
		if minx != nil && miny != nil && maxx != nil && maxy != nil {
			rt.Contents = &[4]float64{*minx, *miny, *maxx, *maxy}
		}
	}
	err = db.QueryRow(`SELECT column_name, geometry_type_name, srs_id FROM gpkg_geometry_columns WHERE table_name=?`, t.Name).Scan(&rt.GeomColumn, &rt.GeomTypeName, &rt.SRSID)
	if err != nil {
		rt.GeomColumn = ""
	}
	var name, org, def string
	var orgID int
	var desc *string
	if err := db.QueryRow(`SELECT srs_name, organization, organization_coordsys_id, definition, description FROM gpkg_spatial_ref_sys WHERE srs_id=?`, rt.SRSID).Scan(&name, &org, &orgID, &def, &desc); err == nil {
		d := ""
		if desc != nil {
			d = *desc
		}
		rt.SRSRow = fmt.Sprintf("%s|%s|%d|%s|%s", name, org, orgID, def, d)
	}
	return rt, nil
}

// listTables: names of all user tables (no sqlite_, gpkg_, rtree_ tables)
func listTables(path string) ([]string, error) {
	db, err := sql.Open("sqlite3", sqliteURI(path)+"?mode=ro")
	if err != nil {
		return nil, err
	}
	defer db.Close()
	rows, err := db.Query(`SELECT name FROM sqlite_master WHERE type='table'`)
	if err != nil {
		return nil, err
	}
	defer rows.Close()
	var out []string
	for rows.Next() {
		var n string
		if err := rows.Scan(&n); err != nil {
			return nil, err
		}
		if strings.HasPrefix(n, "sqlite_") || strings.HasPrefix(n, "gpkg_") || strings.HasPrefix(n, "rtree_") {
			continue
		}
		out = append(out, n)
	}
	sort.Strings(out)
	return out, nil
}

func geomIsEmpty(g geom.Geometry) bool {
	switch x := g.(type) {
	case nil:
		return true
	case geom.Polygon:
		for _, r := range x {
			if len(r) > 0 {
				return false
			}
		}
		return true
	case geom.MultiPolygon:
		for _, p := range x {
			if !geomIsEmpty(geom.Polygon(p)) {
				return false
			}
		}
		return true
	case geom.LineString:
		return len(x) == 0
	case geom.MultiPoint:
		return len(x) == 0
	case geom.Point:
		return math.IsNaN(x[0]) || math.IsNaN(x[1])
	}
	return false
}

// geomExtent: bounding box minx miny maxx maxy of all coordinates (independent of go-spatial's extent code)
func geomExtent(g geom.Geometry) (b [4]float64, ok bool) {
	b = [4]float64{math.Inf(1), math.Inf(1), math.Inf(-1), math.Inf(-1)}
	add := func(p [2]float64) {
		ok = true
		b[0], b[1], b[2], b[3] = math.Min(b[0], p[0]), math.Min(b[1], p[1]), math.Max(b[2], p[0]), math.Max(b[3], p[1])
	}
	switch x := g.(type) {
	case geom.Point:
		add(x)
	case geom.LineString:
		for _, p := range x {
			add(p)
		}
	case geom.MultiPoint:
		for _, p := range x {
			add(p)
		}
	case geom.Polygon:
		for _, r := range x {
			for _, p := range r {
				add(p)
			}
		}
	case geom.MultiPolygon:
		for _, pg := range x {
			for _, r := range pg {
				for _, p := range r {
					add(p)
				}
			}
		}
	}
	return
}

func geomEqual(a, b geom.Geometry) bool {
	if geomIsEmpty(a) && geomIsEmpty(b) {
		return true
	}
	return reflect.DeepEqual(normGeom(a), normGeom(b))
}

// normGeom: nil and empty ring lists are the same
func normGeom(g geom.Geometry) any {
	switch x := g.(type) {
	case geom.Polygon:
		return [][][2]float64(x)
	case geom.MultiPolygon:
		return [][][][2]float64(x)
	case geom.LineString:
		return [][2]float64(x)
	case geom.MultiPoint:
		return [][2]float64(x)
	case geom.Point:
		return [2]float64(x)
	}
	return g
}

func valsEqual(a, b []any) bool {
	if len(a) != len(b) {
		return false
	}
	for i := range a {
		if !reflect.DeepEqual(normVal(a[i]), normVal(b[i])) {
			return false
		}
	}
	return true
}

// ---- generators ----

func genAttrCols(rng *fw.Rng) []ColSpec {
	n := 1 + rng.Intn(6)
	cols := make([]ColSpec, n)
	for i := range cols {
		cols[i] = ColSpec{Name: fmt.Sprintf("%s%d", fw.Pick(rng, []string{"name", "val", "cnt", "attr", "Code"}), i), Type: fw.Pick(rng, []string{"INTEGER", "REAL", "TEXT"})}
	}
	return cols
}

// withTimeCols turns some columns into DATE / DATETIME / TIMESTAMP columns (C13 sources; drawn from its own stream).
func withTimeCols(rng *fw.Rng, cols []ColSpec) []ColSpec {
	for i := range cols {
		if rng.Chance(1, 5) {
			cols[i].Type = fw.Pick(rng, []string{"DATETIME", "DATETIME", "DATE", "TIMESTAMP"})
			cols[i].Name = "at" + cols[i].Name
		}
	}
	return cols
}

func genVals(rng *fw.Rng, cols []ColSpec, i int) []any {
	vals := make([]any, len(cols))
	for k, c := range cols {
		if rng.Chance(1, 6) {
			vals[k] = nil
			continue
		}
		switch c.Type {
		case "INTEGER":
			vals[k] = int64(rng.Intn(2000000)) - 1000000
		case "REAL":
			vals[k] = math.Round(rng.NormFloat()*1e6)/64 + 0.5
		case "DATE":
			vals[k] = timeLit(fmt.Sprintf("%04d-%02d-%02d", 1990+rng.Intn(60), 1+rng.Intn(12), 1+rng.Intn(28)))
		case "DATETIME", "TIMESTAMP":
			sep := fw.Pick(rng, []string{"T", " "})
			frac := fw.Pick(rng, []string{"", "", ".5", ".123456", ".000000001"})
			zone := fw.Pick(rng, []string{"Z", "", "+00:00", "+02:00", "-05:30", "+01:00", "+14:00", "-11:00"})
			if zone == "Z" && sep == " " {
				sep = "T"
			}
			vals[k] = timeLit(fmt.Sprintf("%04d-%02d-%02d%s%02d:%02d:%02d%s%s", 1990+rng.Intn(60), 1+rng.Intn(12), 1+rng.Intn(28), sep, rng.Intn(24), rng.Intn(60), rng.Intn(60), frac, zone))
		default:
			vals[k] = fmt.Sprintf("%s-%d-%c", fw.Pick(rng, []string{"straat", "weg", "ünï", "a b", "", "it's"}), i, 'a'+rune(rng.Intn(26)))
		}
	}
	return vals
}

func tierN(quick, thorough int64) func(string) int64 {
	return func(t string) int64 {
		if t == "thorough" {
			return thorough
		}
		return quick
	}
}
