// vgpkg: cgo driver of the runtime monitors that need SQLite (built with -tags verif: hook H1 registers the
// pure-Go 'spatialite' driver the GeoPackage code asks for).
package main

import (
	"encoding/json"
	"fmt"
	"io"
	"log"
	"os"
	"path/filepath"
	"strconv"

	"verifharness/fw"
)

func main() {
	if len(os.Args) > 1 && os.Args[1] == "cli-batch" {
		cliBatch(os.Args[2:])
		return
	}
	fw.Main()
}

// cliBatch <seed> <n> <dir>: n runs of the race-built texel binary on generated multi-table sources
// (used by C11 for the end-to-end part: main re-assigns target.Table right after ProcessFeatures returns).
// Race reports go to $VERIF_RUN_TMP/race*; the C13 oracle's verdicts are written to <dir>/clibatch.json.
func cliBatch(args []string) {
	log.SetOutput(io.Discard)
	seed, _ := strconv.ParseInt(args[0], 10, 64)
	n, _ := strconv.Atoi(args[1])
	dir := args[2]
	rec := fw.NewRecorder("C13", "")
	for i := 0; i < n; i++ {
		rng := fw.CaseRng(seed, "C11-e2e", "", int64(i))
		cc := &CLICase{Seed: rng.Uint64(), Race: true}
		rec.CurIdx = int64(i)
		c := &fw.Ctx{Rec: rec, Rng: rng, Tier: "quick", Seed: seed, Idx: int64(i), Tmp: filepath.Join(dir, "clibatch")}
		judgeCLI(c, cc)
	}
	res := rec.Result()
	b, _ := json.Marshal(res)
	if err := os.WriteFile(filepath.Join(dir, "clibatch.json"), b, 0o644); err != nil {
		fmt.Fprintln(os.Stderr, err)
		os.Exit(1)
	}
}
