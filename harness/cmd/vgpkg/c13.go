package main

import (
	"bytes"
	"encoding/json"
	"fmt"
	"os"
	"os/exec"
	"path/filepath"
	"sort"
	"strconv"
	"strings"

	"verifharness/fw"
	"verifharness/gen"
	"verifharness/grid"
	"verifharness/oracle"

	"github.com/go-spatial/geom"
	ggpkg "github.com/go-spatial/geom/encoding/gpkg"
	"github.com/pdok/texel/snap"
	"github.com/pdok/texel/tms20"
)

// CLICase: one run of the texel binary. Everything derives from Seed.
type CLICase struct {
	Seed uint64 `json:"seed"`
	Race bool   `json:"race_build,omitempty"`
	// ManyIDs > 0: that many tile matrices in one run (more than any batch size or CPU count one would pick),
	// with features sized for every one of them
	ManyIDs int `json:"many_ids,omitempty"`
	// OddPath: the target lives under, and is named with, characters that are special in URIs, globs or format strings
	OddPath string `json:"odd_path,omitempty"`
}

func (c *CLICase) JSON() []byte { b, _ := json.Marshal(c); return b }

type cliPlan struct {
	tmsName                   string
	tmsDoc                    []byte // for hook H2 (synthetic sets); nil for built-ins
	tmsSpec                   grid.Spec
	ids                       []int
	spread                    uint // > 0: feature sizes spread over this many levels above the deepest
	page                      int
	keep, iog, rwo, overwrite bool
	targetRel                 string // relative target path given on the command line
	tables                    []TableSpec
	hasOutside                bool
	nonQuad                   bool
	srs                       int
}

func dyadicDoc(id string, depth int, cell, ox, oy float64) []byte {
	var tms []map[string]any
	for z := 0; z <= depth; z++ {
		cs := cell * float64(uint(1)<<uint(depth-z))
		tms = append(tms, map[string]any{"id": strconv.Itoa(z), "scaleDenominator": cs / 0.00028, "cellSize": cs, "cornerOfOrigin": "bottomLeft",
			"pointOfOrigin": []float64{ox, oy}, "tileWidth": 256, "tileHeight": 256, "matrixWidth": 1 << uint(z), "matrixHeight": 1 << uint(z)})
	}
	doc := map[string]any{"id": id, "title": "synthetic dyadic set", "crs": "http://www.opengis.net/def/crs/EPSG/0/3857", "orderedAxes": []string{"X", "Y"}, "tileMatrices": tms}
	b, _ := json.Marshal(doc)
	return b
}

func loadPlanTMS(pl *cliPlan, dir string) (tms20.TileMatrixSet, error) {
	if pl.tmsDoc == nil {
		return tms20.LoadEmbeddedTileMatrixSet(pl.tmsName)
	}
	p := filepath.Join(dir, pl.tmsName+".json")
	if err := os.WriteFile(p, pl.tmsDoc, 0o644); err != nil {
		return tms20.TileMatrixSet{}, err
	}
	return tms20.LoadJSONTileMatrixSet(p)
}

// placePolygon puts a lattice polygon somewhere inside the grid of the request.
func placePolygon(rng *fw.Rng, gs *grid.Set, req grid.Request, lp gen.Poly, outside bool, spread uint) geom.Polygon {
	pix := req.ResD
	q := pix / 4
	if rng.Chance(1, 5) {
		q = pix * 4 // large features too
	}
	n := int64(1) << req.D
	_, _, maxx, maxy := lp.Bounds()
	if spread > 0 { // a feature a few pixels wide at one of the requested levels, not only the deepest
		for sh := uint(rng.Intn(int(spread) + 1)); ; sh-- {
			q = (pix << sh) / 4
			if sh == 0 || max(maxx, maxy)*q/pix+8 < n/2 {
				break
			}
		}
	}
	wpx := max(maxx, maxy)*q/pix + 4
	px, py := 2+rng.Int63n(max(n-wpx-4, 1)), 2+rng.Int63n(max(n-wpx-4, 1))
	if rng.Bool() {
		px, py = n/3+rng.Int63n(min(500, n/4+1)), n/3+rng.Int63n(min(500, n/4+1))
	}
	poly := make(geom.Polygon, len(lp))
	for i, r := range lp {
		fr := make([][2]float64, len(r))
		for j, p := range r {
			ip := oracle.P{gs.OX + px*pix + p[0]*q, gs.OY + py*pix + p[1]*q}
			if outside && i == 0 && j == 0 {
				ip[0] = gs.OX - 5*pix
			}
			fr[j], _ = grid.ToFloatPoint(ip)
		}
		poly[i] = fr
	}
	return poly
}

func buildCLIPlan(cc *CLICase) *cliPlan {
	rng := fw.NewRng(cc.Seed)
	pl := &cliPlan{}
	switch k := rng.Intn(20); {
	case k < 6:
		pl.tmsName, pl.tmsSpec, pl.srs = "NetherlandsRDNewQuad", grid.Spec{Name: "NetherlandsRDNewQuad"}, 28992
		base := fw.Pick(rng, []int{5, 9, 11, 12})
		pl.ids = pickIDs(rng, base, 3)
	case k < 10:
		pl.tmsName, pl.tmsSpec, pl.srs = "WebMercatorQuad", grid.Spec{Name: "WebMercatorQuad"}, 3857
		pl.ids = pickIDs(rng, fw.Pick(rng, []int{6, 12, 14}), 3)
	case k < 13:
		pl.tmsName, pl.tmsSpec, pl.srs = "EuropeanETRS89_LAEAQuad", grid.Spec{Name: "EuropeanETRS89_LAEAQuad"}, 3035
		pl.ids = pickIDs(rng, fw.Pick(rng, []int{8, 11}), 3)
	case k < 19:
		depth := 3 + rng.Intn(3)
		ox, oy := fw.Pick(rng, []float64{0, -512, 1000}), fw.Pick(rng, []float64{0, 256, -64})
		pl.tmsName = fmt.Sprintf("VerifDyadic%d", depth)
		pl.tmsDoc = dyadicDoc(pl.tmsName, depth, 0.5, ox, oy)
		pl.tmsSpec = grid.Spec{} // resolved from the document
		pl.srs = 3857
		pl.ids = pickIDs(rng, rng.Intn(depth-1), 3)
	default:
		pl.nonQuad = true
		pl.tmsName = fw.Pick(rng, []string{"WorldCRS84Quad", "CDB1GlobalGrid", "GNOSISGlobalGrid", "UTM31WGS84Quad", "CanadianNAD83_LCC", "LINZAntarticaMapTilegrid", "WGS1984Quad"})
		pl.srs = 4326
		pl.ids = []int{1 + rng.Intn(3)}
	}
	if cc.ManyIDs > 0 && !pl.nonQuad && pl.tmsDoc == nil {
		r2 := fw.NewRng(cc.Seed ^ 0x77aa)
		many := min(cc.ManyIDs, 16)
		top := 9 + r2.Intn(7) // deepest id 9..15 (every built-in quadtree set used here has ids 0..15)
		if many > top+1 {
			top = many - 1
		}
		chosen := append([]int{top}, r2.Perm(top)[:many-1]...)
		pl.ids = nil
		for _, i := range r2.Perm(len(chosen)) {
			pl.ids = append(pl.ids, chosen[i])
		}
		lo := pl.ids[0]
		for _, id := range pl.ids {
			lo = min(lo, id)
		}
		pl.spread = uint(top - lo)
	}
	pl.page = fw.Pick(rng, []int{1, 2, 3, 1000})
	pl.keep, pl.iog, pl.rwo, pl.overwrite = rng.Bool(), rng.Bool(), rng.Chance(1, 3), rng.Bool()
	// target path: [A-Za-z0-9_.-], 0-2 dots, optional sub-directories
	nm := fw.Pick(rng, []string{"out", "Target-1", "a_b", "x9", "snap", "building", "bgt_kpg", "sqlite", "v2"})
	switch rng.Intn(4) {
	case 0: // no extension
	case 1:
		nm += ".gpkg"
	case 2:
		nm += ".v2.gpkg"
	default:
		nm += fw.Pick(rng, []string{".GPKG", ".sqlite", ".d-b"})
	}
	switch rng.Intn(3) {
	case 0:
		pl.targetRel = nm
	case 1:
		pl.targetRel = filepath.Join("sub.dir", nm)
	default:
		pl.targetRel = filepath.Join("a", "b_c", nm)
	}
	if cc.OddPath != "" {
		pl.targetRel = filepath.Join(cc.OddPath, "out "+cc.OddPath+fw.Pick(rng, []string{".gpkg", "", ".v2.gpkg"}))
	}
	return pl
}

func pickIDs(rng *fw.Rng, base, span int) []int {
	var ids []int
	for z := base; z < base+span; z++ {
		if len(ids) == 0 || rng.Bool() {
			ids = append(ids, z)
		}
	}
	perm := rng.Perm(len(ids))
	out := make([]int, len(ids))
	for i, j := range perm {
		out[i] = ids[j]
	}
	return out
}

var cliKinds = []string{"star", "comb", "sliver", "angle", "rectholes", "spiky", "grow", "border", "star", "grow"}

// fillTables generates the source tables (needs the grid of the set).
func fillTables(cc *CLICase, pl *cliPlan, gs *grid.Set) {
	rng := fw.NewRng(cc.Seed ^ 0x5151)
	rngT := fw.NewRng(cc.Seed ^ 0x7155)
	req := gs.Request(pl.ids)
	nt := 1 + rng.Intn(3)
	for ti := 0; ti < nt; ti++ {
		t := TableSpec{Name: fmt.Sprintf("%s_%d", fw.Pick(rng, []string{"pand", "Vlak", "t"}), ti), GeomCol: fw.Pick(rng, []string{"geom", "geometry"}), SRS: pl.srs, Cols: genAttrCols(rng), GeomFirst: rng.Chance(1, 5)}
		t.Cols = withTimeCols(rngT, t.Cols)
		t.GeomType = fw.Pick(rng, []string{"POLYGON", "POLYGON", "MULTIPOLYGON", "POINT", "LINESTRING"})
		if ti == 0 {
			t.GeomType = fw.Pick(rng, []string{"POLYGON", "MULTIPOLYGON"})
		}
		n := rng.Intn(41)
		if rng.Chance(1, 8) {
			n = 0
		}
		fid := int64(0)
		for i := 0; i < n; i++ {
			fid += 1 + int64(rng.Intn(3))
			r := RowSpec{FID: fid, Vals: genVals(rng, t.Cols, i)}
			outside := rng.Chance(1, 60)
			switch t.GeomType {
			case "POLYGON":
				lp := gen.ByName(fw.Pick(rng, cliKinds), rng, int64(12+rng.Intn(40)))
				r.Geom = placePolygon(rng, gs, req, lp, outside, pl.spread)
				pl.hasOutside = pl.hasOutside || outside
			case "MULTIPOLYGON":
				var mp geom.MultiPolygon
				for k := 1 + rng.Intn(3); k > 0; k-- {
					lp := gen.ByName(fw.Pick(rng, cliKinds), rng, int64(12+rng.Intn(40)))
					mp = append(mp, placePolygon(rng, gs, req, lp, outside && k == 1, pl.spread))
				}
				pl.hasOutside = pl.hasOutside || outside
				r.Geom = mp
			default:
				r.Geom = genGeom(rng, t.GeomType, i, gs.BL[0]+(gs.TR[0]-gs.BL[0])/3, gs.BL[1]+(gs.TR[1]-gs.BL[1])/3)
			}
			r.Geom = asStored(r.Geom, t.SRS)
			t.Rows = append(t.Rows, r)
		}
		pl.tables = append(pl.tables, t)
	}
}

// asStored: the geometry as a reader gets it back from a GeoPackage blob (the encoding closes rings, the decoding
// drops the closing vertex again; a ring that was given closed loses its last vertex). The source feature is what is stored.
func asStored(g geom.Geometry, srs int) geom.Geometry {
	sb, err := ggpkg.NewBinary(int32(srs), g)
	if err != nil {
		return g
	}
	b, err := sb.Encode()
	if err != nil {
		return g
	}
	d, err := ggpkg.DecodeGeometry(b)
	if err != nil {
		return g
	}
	return d.Geometry
}

// expectedRows: what the library computes for one tile matrix.
func expectedRows(t *TableSpec, ts tms20.TileMatrixSet, ids []int, id int, cfg snap.Config) (rows []RowSpec, err error) {
	defer func() {
		if r := recover(); r != nil {
			err = fmt.Errorf("library panicked: %v", r)
		}
	}()
	for _, r := range t.Rows {
		switch g := r.Geom.(type) {
		case geom.Polygon:
			res := snap.SnapPolygon(g, ts, append([]int{}, ids...), cfg)[id]
			switch len(res) {
			case 0:
			case 1:
				rows = append(rows, RowSpec{FID: r.FID, Vals: r.Vals, Geom: res[0]})
			default:
				var mp geom.MultiPolygon
				for _, p := range res {
					mp = append(mp, p)
				}
				rows = append(rows, RowSpec{FID: r.FID, Vals: r.Vals, Geom: mp})
			}
		case geom.MultiPolygon:
			var mp geom.MultiPolygon
			for _, part := range g {
				for _, p := range snap.SnapPolygon(part, ts, append([]int{}, ids...), cfg)[id] {
					mp = append(mp, p)
				}
			}
			if len(mp) > 0 {
				rows = append(rows, RowSpec{FID: r.FID, Vals: r.Vals, Geom: mp})
			}
		default:
			rows = append(rows, r)
		}
	}
	return rows, nil
}

func listFiles(root string) []string {
	var out []string
	_ = filepath.Walk(root, func(p string, info os.FileInfo, err error) error {
		if err == nil && !info.IsDir() {
			rel, _ := filepath.Rel(root, p)
			out = append(out, rel)
		}
		return nil
	})
	sort.Strings(out)
	return out
}

func expectedTarget(rel string, id int) string {
	dir, file := filepath.Split(rel)
	ext := filepath.Ext(file)
	name := strings.TrimSuffix(file, ext)
	return filepath.Join(dir, fmt.Sprintf("%s_%d%s", name, id, ext))
}

func judgeCLI(c *fw.Ctx, cc *CLICase) {
	cj := cc.JSON()
	c.Rec.SetCurrent(cj)
	bin := os.Getenv("VERIF_TEXEL_BIN")
	if cc.Race {
		bin = os.Getenv("VERIF_TEXEL_RACE_BIN")
	}
	if bin == "" {
		c.Rec.Count("skipped:no-binary")
		return
	}
	work := filepath.Join(c.Tmp, "c13")
	_ = os.RemoveAll(work)
	tmsDir := filepath.Join(work, "tms")
	outDir := filepath.Join(work, "out")
	_ = os.MkdirAll(tmsDir, 0o755)
	_ = os.MkdirAll(outDir, 0o755)
	if os.Getenv("VERIF_KEEP") == "" {
		defer os.RemoveAll(work)
	} else {
		fmt.Fprintln(os.Stderr, "KEEPING", work)
	}
	pl := buildCLIPlan(cc)
	ts, err := loadPlanTMS(pl, tmsDir)
	if err != nil {
		c.Rec.Note("tms: " + err.Error())
		return
	}
	var gs *grid.Set
	if !pl.nonQuad {
		gs, err = grid.FromTMS(grid.Spec{Name: pl.tmsName}, ts)
		if err != nil {
			c.Rec.Note("grid: " + err.Error())
			return
		}
		fillTables(cc, pl, gs)
	} else {
		pl.tables = []TableSpec{{Name: "t_0", GeomCol: "geom", GeomType: "POLYGON", SRS: 4326, Cols: []ColSpec{{Name: "a", Type: "TEXT"}},
			Rows: []RowSpec{{FID: 1, Vals: []any{"x"}, Geom: geom.Polygon{{{1, 1}, {2, 1}, {2, 2}}}}}}}
	}
	src := filepath.Join(work, "source.gpkg")
	if err := makeSource(src, pl.tables); err != nil {
		c.Rec.Note("source: " + err.Error())
		return
	}
	_ = os.MkdirAll(filepath.Join(outDir, filepath.Dir(pl.targetRel)), 0o755)
	// pre-existing target files with a sentinel table and a same-named table holding sentinel rows
	planted := false
	if pl.overwrite {
		for _, id := range pl.ids {
			p := filepath.Join(outDir, expectedTarget(pl.targetRel, id))
			sent := []TableSpec{{Name: "sentinel_table", GeomCol: "geom", GeomType: "POINT", SRS: 4326, Cols: []ColSpec{{Name: "s", Type: "TEXT"}}, Rows: []RowSpec{{FID: 1, Vals: []any{"old"}, Geom: geom.Point{1, 2}}}}}
			old := pl.tables[0]
			old.Rows = []RowSpec{{FID: 999999, Vals: make([]any, len(old.Cols)), Geom: geom.Point{0, 0}}}
			old.GeomType = "POINT"
			sent = append(sent, old)
			if err := makeSource(p, sent); err == nil {
				planted = true
			}
		}
	}
	zb, _ := json.Marshal(pl.ids)
	args := []string{"-s", src, "-t", filepath.Join(outDir, pl.targetRel), "-tms", pl.tmsName, "-z", string(zb), "-p", strconv.Itoa(pl.page)}
	if pl.keep {
		args = append(args, "--keeppointsandlines")
	}
	if pl.iog {
		args = append(args, "--ignoreoutsidegrid")
	}
	if pl.rwo {
		args = append(args, "--reversewindingorder")
	}
	if pl.overwrite {
		args = append(args, "--overwrite")
	}
	before := listFiles(outDir)
	// every fourth run is configured through the environment variables the tool documents for its flags
	var cfgEnv []string
	if fw.NewRng(cc.Seed^0xe17).Chance(1, 4) {
		cfgEnv = []string{"SOURCE_GPKG=" + src, "TARGET_GPKG=" + filepath.Join(outDir, pl.targetRel), "TILEMATRIXSET=" + pl.tmsName, "TILEMATRICES=" + string(zb), "PAGESIZE=" + strconv.Itoa(pl.page),
			"KEEPPOINTSANDLINES=" + strconv.FormatBool(pl.keep), "IGNOREOUTSIDEGRID=" + strconv.FormatBool(pl.iog), "REVERSEWINDINGORDER=" + strconv.FormatBool(pl.rwo), "OVERWRITE=" + strconv.FormatBool(pl.overwrite)}
		args = []string{}
		c.Rec.Count("configured_through_environment_variables")
	}
	cmd := exec.Command("timeout", append([]string{"-s", "QUIT", "300", bin}, args...)...)
	cmd.Env = append(append(os.Environ(), "TEXEL_VERIF_TMS_DIR="+tmsDir), cfgEnv...)
	if cc.Race {
		cmd.Env = append(cmd.Env, "GORACE=halt_on_error=0 log_path="+filepath.Join(os.Getenv("VERIF_RUN_TMP"), "race"))
	}
	var stderr bytes.Buffer
	cmd.Stderr = &stderr
	runErr := cmd.Run()
	code := 0
	if ee, ok := runErr.(*exec.ExitError); ok {
		code = ee.ExitCode()
	} else if runErr != nil {
		c.Rec.Note("exec: " + runErr.Error())
		return
	}
	c.Rec.Eval()
	after := listFiles(outDir)
	shown := args
	if len(cfgEnv) > 0 {
		shown = append([]string{"", ""}, cfgEnv[1:]...)
	}
	desc := fmt.Sprintf("texel %s (exit %d)", strings.Join(shown[2:], " "), code)
	detail := map[string]any{"args": args, "env": cfgEnv, "exit": code, "stderr_tail": tailS(stderr.String(), 1500), "files_after": after}
	c.Rec.Count("tms:" + pl.tmsName)
	c.Rec.Count(fmt.Sprintf("page_size:%d", pl.page))
	c.Rec.Count(fmt.Sprintf("ids:%d", len(pl.ids)))
	if cc.Race {
		c.Rec.Count("race_build_runs")
	}
	if code == 124 {
		c.Rec.Note("binary hit the 300 s watchdog")
		c.Rec.Count("watchdog(inconclusive)")
		return
	}
	if pl.nonQuad {
		c.Rec.Count("class:non_quadtree_set")
		if code == 0 {
			c.Rec.Violation("non-quadtree-set-processed", "", desc+": a built-in set that is no quadtree was not rejected", cj, detail)
		}
		if len(after) != len(before) {
			c.Rec.Violation("target-created-before-validation", "", desc+fmt.Sprintf(": target files %v were created although validation must fail before any work", after), cj, detail)
		}
		if strings.Contains(stderr.String(), "panic:") {
			c.Rec.Violation("panic", "", desc+": ended with a panic: "+firstLineWith(stderr.String(), "panic:"), cj, detail)
		}
		c.Rec.NonTrivial(fw.Hash64(cj))
		return
	}
	if pl.hasOutside && !pl.iog {
		c.Rec.Count("class:outside_polygon_without_ignore")
		if code == 0 {
			c.Rec.Violation("outside-polygon-not-fatal", "", desc+": the source has a polygon reaching outside the grid and ignoring is off, but the tool exited 0", cj, detail)
		}
		c.Rec.NonTrivial(fw.Hash64(cj))
		return
	}
	if pl.hasOutside {
		c.Rec.Count("class:outside_polygon_ignored")
	}
	if code != 0 {
		c.Rec.Violation("tool-failed", "", desc+": "+tailS(stderr.String(), 600), cj, detail)
		return
	}
	// exactly the expected files
	var want []string
	for _, id := range pl.ids {
		want = append(want, expectedTarget(pl.targetRel, id))
	}
	sort.Strings(want)
	if strings.Join(want, "|") != strings.Join(after, "|") {
		c.Rec.Violation("wrong-target-files", "", fmt.Sprintf("%s: files created %v, expected exactly %v", desc, after, want), cj, detail)
		return
	}
	if cc.OddPath != "" {
		c.Rec.Count("target_path_with_characters_special_in_uris_globs_formats")
	}
	c.Rec.Count("dots_in_target_name:" + strconv.Itoa(strings.Count(filepath.Base(pl.targetRel), ".")))
	if strings.Contains(pl.targetRel, "/") {
		c.Rec.Count("target_in_subdirectory")
	}
	cfg := snap.Config{KeepPointsAndLines: pl.keep, IgnoreOutsideGrid: pl.iog, ReverseWindingOrder: pl.rwo}
	nt := false
	for _, id := range pl.ids {
		dst := filepath.Join(outDir, expectedTarget(pl.targetRel, id))
		names, err := listTables(dst)
		if err != nil {
			c.Rec.Violation("unreadable-target", "", fmt.Sprintf("%s: %s: %v", desc, dst, err), cj, detail)
			continue
		}
		var wantNames []string
		for _, t := range pl.tables {
			wantNames = append(wantNames, t.Name)
		}
		sort.Strings(wantNames)
		if strings.Join(names, "|") != strings.Join(wantNames, "|") {
			cls := "wrong-tables"
			if planted && containsStr(names, "sentinel_table") {
				cls = "old-target-survives-overwrite"
			}
			c.Rec.Violation(cls, "", fmt.Sprintf("%s: target for tile matrix %d has tables %v, source has %v", desc, id, names, wantNames), cj, detail)
			continue
		}
		for ti := range pl.tables {
			t := &pl.tables[ti]
			exp, err := expectedRows(t, ts, pl.ids, id, cfg)
			if err != nil {
				c.Rec.Abort("library call failed: "+err.Error(), cj)
				continue
			}
			fs, st := checkWritten(dst, t, exp)
			for k, v := range st {
				c.Rec.Add(k, int64(v))
			}
			c.Rec.Count("tables_compared")
			for _, col := range t.Cols {
				if col.Type == "DATE" || col.Type == "DATETIME" || col.Type == "TIMESTAMP" {
					c.Rec.Count("tables_compared_with_DATE/DATETIME/TIMESTAMP_columns(compared_as_instants)")
					break
				}
			}
			if t.GeomType == "POLYGON" || t.GeomType == "MULTIPOLYGON" {
				c.Rec.Count("polygon_tables_compared")
				if len(exp) < len(t.Rows) {
					c.Rec.Count("features_omitted_at_some_matrix")
				}
				for _, e := range exp {
					if _, isMP := e.Geom.(geom.MultiPolygon); isMP && t.GeomType == "POLYGON" {
						c.Rec.Count("polygon_delivered_as_multipolygon")
						break
					}
				}
				if len(exp) > 0 && len(pl.ids) >= 9 {
					c.Rec.Count("non_empty_polygon_tables_in_runs_with_9_to_16_tile_matrices")
				}
				if len(exp) > 0 {
					nt = true
				}
			} else {
				c.Rec.Count("copied_tables_compared")
			}
			for _, f := range fs {
				cls := f[0]
				if planted && strings.Contains(f[1], "999999") {
					cls = "old-target-survives-overwrite"
				}
				c.Rec.Violation(cls, "", fmt.Sprintf("%s: tile matrix %d: %s", desc, id, f[1]), cj, detail)
			}
		}
	}
	if planted {
		c.Rec.Count("class:overwrite_of_planted_target")
	}
	if nt {
		c.Rec.NonTrivial(fw.Hash64(cj))
	}
	if c.Rec.WantSample() {
		c.Rec.Sample(map[string]any{"case": cc, "command": "texel " + strings.Join(args, " "), "exit": code, "files": after, "tables": len(pl.tables)})
	}
}

func containsStr(s []string, v string) bool {
	for _, x := range s {
		if x == v {
			return true
		}
	}
	return false
}

func tailS(s string, n int) string {
	if len(s) > n {
		return s[len(s)-n:]
	}
	return s
}

func firstLineWith(s, prefix string) string {
	for _, l := range strings.Split(s, "\n") {
		if strings.HasPrefix(l, prefix) {
			return l
		}
	}
	return ""
}

func raceReportsIn(tmp string) (total int, texel []string) {
	files, _ := filepath.Glob(filepath.Join(tmp, "race*"))
	seen := map[string]bool{}
	for _, f := range files {
		b, err := os.ReadFile(f)
		if err != nil {
			continue
		}
		for _, blk := range strings.Split(string(b), "==================") {
			if !strings.Contains(blk, "WARNING: DATA RACE") {
				continue
			}
			total++
			if !strings.Contains(blk, "github.com/pdok/texel") {
				continue
			}
			var key []string
			for _, l := range strings.Split(blk, "\n") {
				l = strings.TrimSpace(l)
				if strings.HasPrefix(l, "github.com/pdok/texel") || strings.HasPrefix(l, "main.") {
					if i := strings.Index(l, "("); i > 0 {
						l = l[:i]
					}
					key = append(key, l)
				}
			}
			if k := strings.Join(key, ">"); !seen[k] {
				seen[k] = true
				texel = append(texel, strings.TrimSpace(blk))
			}
		}
	}
	return
}

func init() {
	fw.Register(&fw.Prop{
		ID: "C13", Cases: tierN(200, 3000),
		Run: func(c *fw.Ctx) {
			cc := &CLICase{Seed: c.Rng.Uint64()}
			if c.Idx%10 == 3 {
				cc.ManyIDs = 9 + int(cc.Seed>>7%8) // 9..16 target files
			}
			if c.Idx%6 == 1 {
				cc.OddPath = oddNames[int(cc.Seed>>11)%len(oddNames)]
				if strings.Contains(cc.OddPath, "%") {
					// not for the tool: it builds the target names with a format string made from the path, so a percent sign
					// is outside what it supports (and outside the property's "safe alphabet"); the library (C12) takes them
					cc.OddPath = "run#7 [v" + strconv.Itoa(int(cc.Seed>>13)%9) + "]"
				}
			}
			if c.Tier == "thorough" && c.Idx%5 == 0 && os.Getenv("VERIF_TEXEL_RACE_BIN") != "" {
				cc.Race = true
			}
			judgeCLI(c, cc)
		},
		Replay: func(c *fw.Ctx, raw json.RawMessage) {
			var cc CLICase
			if err := json.Unmarshal(raw, &cc); err != nil || cc.Seed == 0 {
				c.Rec.Note("bad case")
				return
			}
			cc.Race = false
			judgeCLI(c, &cc)
		},
		Extra: func(p *fw.ParentCtx) {
			total, texel := raceReportsIn(p.Tmp)
			p.Extra["race_reports_total"] = total
			p.Extra["race_reports_with_texel_frame_deduplicated"] = len(texel)
			for i, blk := range texel {
				if i >= 3 {
					break
				}
				p.Merged.ViolCount["data-race"]++
				p.Merged.Violations = append(p.Merged.Violations, fw.Violation{Property: "C13", Class: "data-race", Msg: "race detector report from the race-built texel binary:\n" + tailS(blk, 2500), Case: json.RawMessage(`{"note":"race report; schedule dependent"}`)})
			}
		},
		Rule: "the real binary (built from /repo with -tags verif) on generated sources: 1-3 tables (POLYGON/MULTIPOLYGON tables with generated polygons placed in NetherlandsRDNewQuad, WebMercatorQuad, EuropeanETRS89_LAEAQuad or a synthetic dyadic set loaded through hook H2; POINT/LINESTRING tables), 0-40 features, INTEGER/REAL/TEXT attributes and (1 column in 5) DATE/DATETIME/TIMESTAMP attributes with and without UTC offsets compared as instants, 1-3 ids in random order (every 10th run 9-16 ids with feature sizes spread over all requested levels), page sizes 1/2/3/1000, all flag combinations (every fourth run configured through the documented environment variables instead of the command line), target names with 0-2 dots in sub-directories, pre-existing target files with sentinel tables/rows when overwrite is on; oracle: exit status, exactly the files <name>_<id><ext>, per file the same tables as the source, polygon tables row by row = attributes + what snap.SnapPolygon (called in-process) returns for that id (feature omitted when nothing, several polygons -> MULTIPOLYGON, parts merged), other tables row-for-row copies, nothing of the planted file left; outside-grid polygon without the ignore flag -> non-zero exit; built-in non-quadtree sets -> non-zero exit and no target file; non-trivial = run whose polygon tables produced rows (or a demanded failure)",
		Required: func(t string) []string {
			r := []string{"configured_through_environment_variables", "polygon_tables_compared", "copied_tables_compared", "class:overwrite_of_planted_target", "features_omitted_at_some_matrix", "polygon_delivered_as_multipolygon", "target_in_subdirectory", "rows_compared", "target_path_with_characters_special_in_uris_globs_formats", "tables_compared_with_DATE/DATETIME/TIMESTAMP_columns(compared_as_instants)", "non_empty_polygon_tables_in_runs_with_9_to_16_tile_matrices"}
			if t == "thorough" {
				r = append(r, "class:non_quadtree_set", "class:outside_polygon_without_ignore", "class:outside_polygon_ignored", "dots_in_target_name:0", "dots_in_target_name:2")
			}
			return r
		},
		MinNonTriv:  10,
		Assumptions: []string{"the expectation is defined by calling snap.SnapPolygon in-process with the same flags (the statement says 'what the library computes')", "hook H1 replaces SpatiaLite", "no '%' and no '?' in target paths (the tool builds target names with a format string made from the path; the sqlite driver cuts a name at '?'), no BLOB attributes, DATE/DATETIME/TIMESTAMP attributes compared as instants, no empty polygons in polygon tables"},
		Technique:   "runtime monitor: end-to-end differential oracle (binary vs library) over generated GeoPackages",
		Workers:     8,
		FlushEvery:  10,
		Watchdog:    func(string) int { return 3000 },
	})
}
