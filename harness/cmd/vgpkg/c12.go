package main

import (
	"encoding/json"
	"fmt"
	"io"
	"log"
	"math"
	"os"
	"path/filepath"
	"strings"

	"verifharness/fw"

	"github.com/go-spatial/geom"
	"github.com/pdok/texel/processing"
	"github.com/pdok/texel/processing/gpkg"
)

// GpkgCase: one target file written through TargetGeopackage. Everything else derives from Seed.
type GpkgCase struct {
	Seed      uint64 `json:"seed"`
	Count     int    `json:"count"`
	PageSize  int    `json:"page_size"`
	TwoTables bool   `json:"two_tables"`
	Count2    int    `json:"count2,omitempty"`
	OddPath   string `json:"odd_path,omitempty"` // source and target live under (and are named with) this string
}

func (g *GpkgCase) JSON() []byte { b, _ := json.Marshal(g); return b }

type wfeat struct {
	cols []interface{}
	g    geom.Geometry
}

func (f *wfeat) Columns() []interface{}  { return f.cols }
func (f *wfeat) Geometry() geom.Geometry { return f.g }

func genGeom(rng *fw.Rng, gtype string, i int, ox, oy float64) geom.Geometry {
	x, y := ox+float64(rng.Intn(100000))/8, oy+float64(rng.Intn(100000))/8
	w, h := 0.125+float64(rng.Intn(4000))/8, 0.125+float64(rng.Intn(4000))/8
	empty := rng.Chance(1, 7)
	switch gtype {
	case "POLYGON":
		if empty {
			return geom.Polygon{}
		}
		pg := geom.Polygon{{{x, y}, {x + w, y}, {x + w, y + h}, {x, y + h}}}
		if rng.Chance(1, 4) {
			pg = append(pg, [][2]float64{{x + w/4, y + h/4}, {x + w/4, y + h/2}, {x + w/2, y + h/4}})
		}
		return pg
	case "MULTIPOLYGON":
		if empty {
			return geom.MultiPolygon{}
		}
		mp := geom.MultiPolygon{{{{x, y}, {x + w, y}, {x + w, y + h}}}}
		for k := rng.Intn(3); k > 0; k-- {
			dx := float64(k) * 3 * w
			mp = append(mp, [][][2]float64{{{x + dx, y}, {x + dx + w, y}, {x + dx, y + h}}})
		}
		return mp
	case "POINT":
		return geom.Point{x, y}
	default:
		if empty {
			return geom.LineString{}
		}
		return geom.LineString{{x, y}, {x + w, y + h}, {x + 2*w, y}}
	}
}

func genTable(rng *fw.Rng, name string, count int) TableSpec {
	return genTableAt(rng, name, count, nil)
}

// genTableAt: with inside != nil all geometries lie inside that box (minx miny maxx maxy).
func genTableAt(rng *fw.Rng, name string, count int, inside *[4]float64) TableSpec {
	t := TableSpec{Name: name, GeomCol: fw.Pick(rng, []string{"geom", "geometry", "shape"}), GeomType: fw.Pick(rng, []string{"POLYGON", "POLYGON", "MULTIPOLYGON", "POINT", "LINESTRING"}),
		SRS: fw.Pick(rng, []int{28992, 3857, 3035, 4326, 100001, 900913}), Cols: genAttrCols(rng)}
	if rng.Chance(1, 5) {
		t.TypeNameCase = 1 + rng.Intn(2)
	}
	ox, oy := 0.0, 0.0
	if rng.Chance(3, 4) { // away from the origin (also negative)
		ox, oy = float64(rng.Intn(800000))-400000, 300000+float64(rng.Intn(300000))
	}
	if inside != nil {
		ox, oy = inside[0], inside[1]
	}
	fid := int64(0)
	for i := 0; i < count; i++ {
		fid += 1 + int64(rng.Intn(3)) // ascending with gaps: rowid order = hand-over order
		g := genGeom(rng, t.GeomType, i, ox, oy)
		if inside != nil {
			g = shrinkInto(g, *inside)
		}
		t.Rows = append(t.Rows, RowSpec{FID: fid, Vals: genVals(rng, t.Cols, i), Geom: g})
	}
	return t
}

func buildGpkgCase(gc *GpkgCase) []TableSpec {
	rng := fw.NewRng(gc.Seed)
	tables := []TableSpec{genTable(rng, fw.Pick(rng, []string{"perceel", "Table_One", "t1"}), gc.Count)}
	if gc.TwoTables {
		// every second time the second table lies inside the bounding box of what the first table wrote
		var box *[4]float64
		if rng.Bool() {
			all := [4]float64{math.Inf(1), math.Inf(1), math.Inf(-1), math.Inf(-1)}
			any := false
			for _, r := range tables[0].Rows {
				if e, ok := geomExtent(r.Geom); ok && !geomIsEmpty(r.Geom) {
					any = true
					all[0], all[1], all[2], all[3] = math.Min(all[0], e[0]), math.Min(all[1], e[1]), math.Max(all[2], e[2]), math.Max(all[3], e[3])
				}
			}
			if any && all[2]-all[0] > 8 && all[3]-all[1] > 8 {
				box = &all
			}
		}
		tables = append(tables, genTableAt(rng, "second_table", gc.Count2, box))
	}
	return tables
}

// shrinkInto maps a geometry affinely into the middle half of a box.
func shrinkInto(g geom.Geometry, box [4]float64) geom.Geometry {
	e, ok := geomExtent(g)
	if !ok {
		return g
	}
	w, h := math.Max(e[2]-e[0], 1e-9), math.Max(e[3]-e[1], 1e-9)
	bw, bh := (box[2]-box[0])/2, (box[3]-box[1])/2
	f := func(p [2]float64) [2]float64 {
		return [2]float64{box[0] + bw/2 + (p[0]-e[0])/w*bw*0.9, box[1] + bh/2 + (p[1]-e[1])/h*bh*0.9}
	}
	switch x := g.(type) {
	case geom.Point:
		return geom.Point(f(x))
	case geom.LineString:
		out := make(geom.LineString, len(x))
		for i, p := range x {
			out[i] = f(p)
		}
		return out
	case geom.Polygon:
		out := make(geom.Polygon, len(x))
		for i, r := range x {
			out[i] = make([][2]float64, len(r))
			for j, p := range r {
				out[i][j] = f(p)
			}
		}
		return out
	case geom.MultiPolygon:
		out := make(geom.MultiPolygon, len(x))
		for k, pg := range x {
			out[k] = make([][][2]float64, len(pg))
			for i, r := range pg {
				out[k][i] = make([][2]float64, len(r))
				for j, p := range r {
					out[k][i][j] = f(p)
				}
			}
		}
		return out
	}
	return g
}

// writeThroughTarget: source file -> GetTableInfo -> TargetGeopackage.WriteFeatures for every table.
func writeThroughTarget(dir string, tables []TableSpec, page int, odd string) (string, error) {
	src := filepath.Join(dir, "src.gpkg")
	dst := filepath.Join(dir, "dst.gpkg")
	if odd != "" { // both files in a sub-directory, and with a name, made of characters that are special elsewhere
		sub := filepath.Join(dir, odd)
		_ = os.MkdirAll(sub, 0o755)
		src, dst = filepath.Join(sub, "src "+odd+".gpkg"), filepath.Join(sub, odd+".gpkg")
	}
	_ = os.Remove(src)
	_ = os.Remove(dst)
	// the source only delivers the schema (Table values have unexported fields): written without rows
	schema := make([]TableSpec, len(tables))
	for i, t := range tables {
		schema[i] = t
		schema[i].Rows = nil
	}
	if err := makeSource(src, schema); err != nil {
		return "", fmt.Errorf("harness could not write the source: %w", err)
	}
	s := gpkg.SourceGeopackage{}
	s.Init(src)
	infos := s.GetTableInfo()
	s.Close()
	if len(infos) != len(tables) {
		return "", fmt.Errorf("GetTableInfo returned %d tables for %d", len(infos), len(tables))
	}
	t := gpkg.TargetGeopackage{}
	t.Init(dst, page)
	if err := t.CreateTables(infos); err != nil {
		return "", fmt.Errorf("CreateTables: %w", err)
	}
	for i, info := range infos {
		spec := tables[i]
		if info.Name != spec.Name {
			for _, c := range tables {
				if c.Name == info.Name {
					spec = c
				}
			}
		}
		t.Table = info
		ch := make(chan processing.Feature)
		done := make(chan struct{})
		go func() { t.WriteFeatures(ch); close(done) }()
		for _, r := range spec.Rows {
			cols := append([]interface{}{r.FID}, r.Vals...)
			ch <- &wfeat{cols: cols, g: r.Geom}
		}
		close(ch)
		<-done
	}
	t.Close()
	return dst, nil
}

// checkWritten: the oracle over the file. prefix for messages.
func checkWritten(dst string, t *TableSpec, expectRows []RowSpec) (fs [][2]string, stats map[string]int) {
	stats = map[string]int{}
	add := func(class, msg string) { fs = append(fs, [2]string{class, msg}) }
	rt, err := readTable(dst, t)
	if err != nil {
		add("unreadable-target", fmt.Sprintf("table %s: %v", t.Name, err))
		return
	}
	if !rt.Exists {
		add("table-missing", fmt.Sprintf("table %s does not exist in the target", t.Name))
		return
	}
	// schema
	var want []string
	cid := 0
	want = append(want, fmt.Sprintf("%d|fid|INTEGER|1|1", cid))
	cid++
	if t.GeomFirst {
		want = append(want, fmt.Sprintf("%d|%s|%s|0|0", cid, t.GeomCol, t.GeomType))
		cid++
	}
	for _, c := range t.Cols {
		nn := 0
		if c.NotNull {
			nn = 1
		}
		want = append(want, fmt.Sprintf("%d|%s|%s|%d|0", cid, c.Name, c.Type, nn))
		cid++
	}
	if !t.GeomFirst {
		want = append(want, fmt.Sprintf("%d|%s|%s|0|0", cid, t.GeomCol, t.GeomType))
	}
	if strings.Join(want, ";") != strings.Join(rt.Columns, ";") {
		add("schema-differs", fmt.Sprintf("table %s: columns (cid|name|type|notnull|pk) %v, source has %v", t.Name, rt.Columns, want))
	}
	if t.TypeNameCase != 0 {
		stats["geometry_type_name_not_upper_case_in_source"]++
	}
	if rt.GeomColumn != t.GeomCol || !strings.EqualFold(rt.GeomTypeName, t.GeomType) || rt.SRSID != t.SRS {
		add("geometry-registration-differs", fmt.Sprintf("table %s: gpkg_geometry_columns has (%s,%s,%d), source (%s,%s,%d)", t.Name, rt.GeomColumn, rt.GeomTypeName, rt.SRSID, t.GeomCol, t.GeomType, t.SRS))
	}
	if !rt.InContents || rt.DataType != "features" {
		add("not-in-gpkg-contents", fmt.Sprintf("table %s: gpkg_contents row missing or data_type=%q", t.Name, rt.DataType))
	}
	// rows
	if len(rt.Rows) != len(expectRows) {
		add("row-count", fmt.Sprintf("table %s: %d rows written for %d features handed over", t.Name, len(rt.Rows), len(expectRows)))
	}
	for i := 0; i < len(rt.Rows) && i < len(expectRows); i++ {
		g, e := rt.Rows[i], expectRows[i]
		stats["rows_compared"]++
		switch {
		case g.FID != e.FID:
			add("row-order", fmt.Sprintf("table %s: row %d (rowid %d) has fid %d, hand-over order demands %d", t.Name, i, g.RowID, g.FID, e.FID))
		case !valsEqual(g.Vals, e.Vals):
			add("attributes-differ", fmt.Sprintf("table %s fid %d: attributes %v, handed over %v", t.Name, e.FID, g.Vals, e.Vals))
		case !geomEqual(g.Geom, e.Geom):
			add("geometry-differs", fmt.Sprintf("table %s fid %d: geometry %v, handed over %v", t.Name, e.FID, g.Geom, e.Geom))
		}
		if len(fs) > 3 {
			break
		}
	}
	// spatial index
	if !rt.HasRTree {
		add("no-spatial-index", fmt.Sprintf("table %s has no rtree_%s_%s", t.Name, t.Name, t.GeomCol))
	} else {
		wantIdx := 0
		for _, e := range expectRows {
			if geomIsEmpty(e.Geom) {
				stats["empty_geometries"]++
				if _, ok := rt.RTree[e.FID]; ok {
					add("index-entry-for-empty-geometry", fmt.Sprintf("table %s fid %d has an empty geometry but a spatial index entry", t.Name, e.FID))
				}
				continue
			}
			wantIdx++
			b, ok := rt.RTree[e.FID]
			if !ok {
				add("index-entry-missing", fmt.Sprintf("table %s fid %d (non-empty geometry) has no spatial index entry (%d entries for %d rows)", t.Name, e.FID, len(rt.RTree), len(expectRows)))
				break
			}
			ex, _ := geomExtent(e.Geom)
			// the R*Tree stores 32-bit floats, rounded outwards
			tol := func(v float64) float64 { return math.Abs(v)*2.5e-7 + 1e-30 }
			if b[0] > ex[0] || b[1] < ex[2] || b[2] > ex[1] || b[3] < ex[3] ||
				ex[0]-b[0] > tol(ex[0]) || b[1]-ex[2] > tol(ex[2]) || ex[1]-b[2] > tol(ex[1]) || b[3]-ex[3] > tol(ex[3]) {
				add("index-box-differs", fmt.Sprintf("table %s fid %d: index box (minx maxx miny maxy) %v, geometry extent (minx miny maxx maxy) %v", t.Name, e.FID, b, ex))
				break
			}
			stats["index_entries_compared"]++
		}
		if len(rt.RTree) != wantIdx {
			add("index-entry-count", fmt.Sprintf("table %s: %d spatial index entries for %d rows with non-empty geometry", t.Name, len(rt.RTree), wantIdx))
		}
	}
	// recorded extent
	all := [4]float64{math.Inf(1), math.Inf(1), math.Inf(-1), math.Inf(-1)}
	any := false
	for _, e := range expectRows {
		if geomIsEmpty(e.Geom) {
			continue
		}
		ex, _ := geomExtent(e.Geom)
		any = true
		all[0], all[1], all[2], all[3] = math.Min(all[0], ex[0]), math.Min(all[1], ex[1]), math.Max(all[2], ex[2]), math.Max(all[3], ex[3])
	}
	switch {
	case !any && rt.Contents != nil:
		add("extent-without-geometry", fmt.Sprintf("table %s: recorded extent %v although no non-empty geometry was written", t.Name, *rt.Contents))
	case any && rt.Contents == nil:
		add("extent-missing", fmt.Sprintf("table %s: no extent recorded, bounding box of the written geometries is %v", t.Name, all))
	case any:
		for k := 0; k < 4; k++ {
			if math.Abs(rt.Contents[k]-all[k]) > 1e-9*math.Max(1, math.Abs(all[k])) {
				add("extent-differs", fmt.Sprintf("table %s: recorded extent (minx miny maxx maxy) %v, bounding box of all written geometries %v", t.Name, *rt.Contents, all))
				break
			}
		}
		stats["extents_compared"]++
	}
	// srs row
	wantSRS := map[int]string{28992: srsRowString(srsRD), 3035: srsRowString(srsETRS), 100001: srsRowString(srsLocalRD), 900913: srsRowString(srsCustom)}
	stats["srs_rows_compared"]++
	if t.SRS == 100001 || t.SRS == 900913 {
		stats["srs_id_differs_from_organization_id"]++
	}
	if w, ok := wantSRS[t.SRS]; ok && rt.SRSRow != w {
		add("srs-differs", fmt.Sprintf("table %s: spatial reference system row %q, source has %q", t.Name, rt.SRSRow, w))
	}
	return
}

func judgeGpkg(c *fw.Ctx, gc *GpkgCase) {
	cj := gc.JSON()
	c.Rec.SetCurrent(cj)
	tables := buildGpkgCase(gc)
	dir := filepath.Join(c.Tmp, "c12")
	_ = os.MkdirAll(dir, 0o755)
	if gc.OddPath != "" {
		c.Rec.Count("path_with_characters_special_in_uris_globs_formats")
	}
	dst, err := writeThroughTarget(dir, tables, gc.PageSize, gc.OddPath)
	c.Rec.Eval()
	if err != nil {
		c.Rec.Violation("write-failed", "", err.Error(), cj, nil)
		return
	}
	c.Rec.Count(fmt.Sprintf("page_size:%d", gc.PageSize))
	switch {
	case gc.Count == 0:
		c.Rec.Count("class:empty_stream")
	case gc.Count%gc.PageSize == 0:
		c.Rec.Count("class:exact_multiple_of_page")
	case gc.Count%gc.PageSize == 1 && gc.Count > gc.PageSize:
		c.Rec.Count("class:multiple_plus_one")
	}
	if gc.Count > gc.PageSize {
		c.Rec.NonTrivial(fw.Hash64(cj))
		c.Rec.Count("class:two_or_more_pages")
	}
	if gc.TwoTables {
		c.Rec.Count("two_tables_in_sequence")
	}
	for i := range tables {
		t := &tables[i]
		c.Rec.Count("geometry_type:" + t.GeomType)
		fs, st := checkWritten(dst, t, t.Rows)
		for k, v := range st {
			c.Rec.Add(k, int64(v))
		}
		for _, f := range fs {
			c.Rec.Violation(f[0], "", fmt.Sprintf("count=%d page=%d: %s", len(t.Rows), gc.PageSize, f[1]), cj, nil)
		}
	}
	names, _ := listTables(dst)
	if len(names) != len(tables) {
		c.Rec.Violation("unexpected-tables", "", fmt.Sprintf("target has tables %v", names), cj, nil)
	}
	if c.Rec.WantSample() && gc.Count > 0 && gc.Count < 6 {
		t := tables[0]
		c.Rec.Sample(map[string]any{"case": gc, "table": t.Name, "geometry_type": t.GeomType, "columns": t.Cols, "first_row": map[string]any{"fid": t.Rows[0].FID, "values": t.Rows[0].Vals, "geometry": t.Rows[0].Geom}})
	}
	_ = os.Remove(dst)
}

var c12Pages = []int{1, 2, 3, 7, 10}

// enumerated part: every (page, count) with page in {1,2,3,7,10}, count 0..3*page+1
func c12Grid() [][2]int {
	var out [][2]int
	for _, p := range c12Pages {
		for n := 0; n <= 3*p+1; n++ {
			out = append(out, [2]int{p, n})
		}
	}
	return out
}

func init() {
	log.SetOutput(io.Discard)
	gridCases := c12Grid()
	fw.Register(&fw.Prop{
		ID: "C12", Cases: func(t string) int64 {
			if t == "thorough" {
				return int64(len(gridCases)) + 8000
			}
			return int64(len(gridCases)) + 400
		},
		Run: func(c *fw.Ctx) {
			gc := &GpkgCase{Seed: c.Rng.Uint64()}
			if int(c.Idx) < len(gridCases) {
				gc.PageSize, gc.Count = gridCases[c.Idx][0], gridCases[c.Idx][1]
				c.Rec.Count("exh:count_x_page_grid")
			} else {
				gc.PageSize = fw.Pick(c.Rng, []int{1, 2, 3, 5, 7, 10, 64, 1000})
				gc.Count = c.Rng.Intn(3*min(gc.PageSize, 40) + 2)
				if gc.PageSize == 1000 && c.Rng.Chance(1, 6) {
					gc.Count = 1000 + c.Rng.Intn(3) - 1
				}
				gc.TwoTables = c.Rng.Chance(1, 3)
				gc.Count2 = c.Rng.Intn(2*min(gc.PageSize, 20) + 2)
			}
			if c.Idx%5 == 2 {
				gc.OddPath = oddNames[int(gc.Seed>>9)%len(oddNames)]
			}
			judgeGpkg(c, gc)
		},
		Replay: func(c *fw.Ctx, raw json.RawMessage) {
			var gc GpkgCase
			if err := json.Unmarshal(raw, &gc); err != nil || gc.PageSize <= 0 {
				c.Rec.Note("bad case")
				return
			}
			judgeGpkg(c, &gc)
		},
		Rule: "TargetGeopackage (Init, CreateTables, Table=..., WriteFeatures on a channel fed by the harness, Close) on schemas obtained through SourceGeopackage.GetTableInfo from generated sources: 1-6 INTEGER/REAL/TEXT attributes with NULLs, POLYGON/MULTIPOLYGON/POINT/LINESTRING incl. empty geometries, geometries away from the origin, 4 reference systems, optionally a second table on the same target; page sizes {1,2,3,7,10} x every count 0..3*page+1 enumerated, plus random (count, page) up to page 1000; the file is read back with a plain sqlite3 connection: row count and order (fids ascending with gaps), attributes, decoded geometry, R-tree ids and boxes (float32 rounded outwards), gpkg_contents extent = bounding box of non-empty geometries (NULL if none), schema, geometry registration, srs row; non-trivial = stream longer than one page",
		Required: func(string) []string {
			return []string{"class:empty_stream", "class:exact_multiple_of_page", "class:multiple_plus_one", "class:two_or_more_pages", "two_tables_in_sequence", "empty_geometries", "index_entries_compared", "extents_compared", "srs_rows_compared", "srs_id_differs_from_organization_id", "geometry_type_name_not_upper_case_in_source", "path_with_characters_special_in_uris_globs_formats", "exh:count_x_page_grid", "page_size:1000"}
		},
		MinNonTriv:  50,
		Exhaustive:  map[string]string{"exh:count_x_page_grid": "page size in {1,2,3,7,10} x every feature count 0..3*page+1"},
		Assumptions: []string{"hook H1's pure-Go ST_IsEmpty/ST_Min*/ST_Max* decide what the R-tree triggers insert: the check shows the triggers exist for the right table/column and fire for every row, not that SpatiaLite would compute the same boxes", "only attribute kinds named by the property (INTEGER, REAL, TEXT, NULL)"},
		Technique:   "runtime monitor: read-back oracle over files written by the real writer",
		Workers:     8,
		FlushEvery:  20,
	})
}
