package main

import (
	"encoding/json"
	"fmt"

	"verifharness/fw"
)

func tierN(quick, thorough int64) func(string) int64 {
	return func(t string) int64 {
		if t == "thorough" {
			return thorough
		}
		return quick
	}
}

// snapRun wraps generation + observation for properties judged on one SnapPolygon call.
// mon returns whether the case was non-trivial.
func snapRun(pr *Profile, needInside bool, mon func(c *fw.Ctx, o *Obs, cj []byte) bool) func(c *fw.Ctx) {
	return func(c *fw.Ctx) {
		sc, why := genSnapCase(c.Rng, pr)
		if sc == nil {
			c.Rec.Count("skipped:" + why)
			return
		}
		snapJudge(c, sc, needInside, mon)
	}
}

func snapJudge(c *fw.Ctx, sc *SnapCase, needInside bool, mon func(c *fw.Ctx, o *Obs, cj []byte) bool) {
	cj := sc.JSON()
	c.Rec.SetCurrent(cj)
	o, err := observe(sc)
	if err != nil {
		c.Rec.Count("skipped:observe-error")
		c.Rec.Note(err.Error())
		return
	}
	c.Rec.Eval()
	c.Rec.Count("gen:" + sc.Kind)
	countSet(c.Rec, sc)
	if !o.Valid {
		c.Rec.Count("invalid_input")
	}
	if o.InputModified {
		c.Rec.Count("caller_memory_written(observed, judged through its consequences)")
	}
	if o.Panic != nil {
		c.Rec.Abort(fmt.Sprintf("snap.SnapPolygon panicked (%s at %s); judged by C06, not by this property", o.PanicText, o.PanicSite), cj)
		return
	}
	if needInside && !o.AllInside {
		c.Rec.Count("skipped:outside")
		return
	}
	if mon(c, o, cj) {
		c.Rec.NonTrivial(fw.Hash64(cj))
	}
	if c.Rec.WantSample() {
		c.Rec.Sample(map[string]any{"case": sc, "result": o.Got})
	}
}

func snapReplay(needInside bool, mon func(c *fw.Ctx, o *Obs, cj []byte) bool) func(c *fw.Ctx, raw json.RawMessage) {
	return func(c *fw.Ctx, raw json.RawMessage) {
		var sc SnapCase
		if err := json.Unmarshal(raw, &sc); err != nil {
			c.Rec.Note("bad case: " + err.Error())
			return
		}
		snapJudge(c, &sc, needInside, mon)
	}
}

func report(c *fw.Ctx, o *Obs, cj []byte, fs []finding) {
	for _, f := range fs {
		c.Rec.Violation(f.class, f.sig, f.msg, cj, o.Detail(f.z))
	}
}

func init() {
	// ---------------- C01 ----------------
	prValid := &Profile{Sets: defaultSets, Kinds: validKinds, ValidOnly: true, Huge: true, Zoo: true, Repeat: true}
	monC01f := func(c *fw.Ctx, o *Obs, cj []byte) bool {
		if !o.Valid {
			c.Rec.Count("skipped:invalid-after-placement")
			return false
		}
		nt := false
		for _, z := range o.UIDs {
			l := o.Level(z)
			c.Rec.Count("level_cases")
			c.Rec.Count("mult:" + mclass(l.Facts.MaxMult))
			if len(o.Rings) > 1 {
				c.Rec.Count("has_hole")
			}
			if l.Facts.ThroughCorner {
				c.Rec.Count("edge_through_pixel_corner")
			}
			if l.Facts.VertexOnBorder {
				c.Rec.Count("vertex_on_pixel_border")
			}
			if len(l.Facts.Mult) >= 4 {
				nt = true
			}
			c.Rec.Add("output_edges_checked", int64(len(outEdges(l))))
		}
		report(c, o, cj, monC01(o))
		return nt
	}
	fw.Register(&fw.Prop{
		ID: "C01", Cases: tierN(300000, 6000000), Run: snapRun(prValid, true, monC01f), Replay: snapReplay(true, monC01f),
		Rule: "cases = generated valid polygons (exact validity test) x requested tile matrices x flags, placed on dyadic, NetherlandsRDNewQuad, WebMercatorQuad and ETRS89 grids; oracle = exact pairwise proper-crossing test on output pixel indices; non-trivial = routed chain has >= 4 distinct pixel centres at some requested matrix; distinct by hash of the concrete case",
		Required: func(string) []string {
			return []string{"mult:M1", "mult:M2", "mult:M3", "has_hole", "edge_through_pixel_corner", "vertex_on_pixel_border"}
		},
		MinNonTriv:  1000,
		Assumptions: []string{"most cases are windows of at most 13 pixels with at most 25 vertices per ring; 1 in 40 is a structured input of 40-300 vertices (big), 1 in 8000 has thousands of vertices (huge, zipper); nest, lobes, saw and longflat are drawn like any other generator (see the kind:* and grid-class:* counters for what a run actually drew)", "validity and crossings decided on the tool's own 1e-10 integer coordinates", "panics are judged by C06"},
		Technique:   "runtime monitor: exact crossing oracle over generated hostile polygons",
	})

	// ---------------- C04 ----------------
	monC04f := func(c *fw.Ctx, o *Obs, cj []byte) bool {
		if !o.Valid {
			c.Rec.Count("skipped:invalid-after-placement")
			return false
		}
		fs, st := monC04(o)
		nt := false
		for _, z := range o.UIDs {
			l := o.Level(z)
			s := st[z]
			c.Rec.Count("level_cases")
			c.Rec.Count("mult:" + mclass(l.Facts.MaxMult))
			c.Rec.Add("coverage_samples_inside", int64(s.samplesIn))
			c.Rec.Add("coverage_samples_outside", int64(s.samplesOut))
			c.Rec.Add("output_edges_checked", int64(s.edges))
			if s.samplesIn > 0 && s.samplesOut > 0 {
				nt = true
			}
			shells := 0
			for _, pg := range l.OutK {
				if len(pg) > 0 && len(pg[0]) >= 3 {
					shells++
					if len(pg) > 1 && len(o.Rings) > 1 {
						c.Rec.Count("hole_survives")
					}
				} else {
					c.Rec.Count("part_collapses")
				}
			}
			if shells >= 2 {
				c.Rec.Count("splits_into_parts")
			}
			if !l.Present {
				c.Rec.Count("whole_polygon_collapses")
			}
		}
		report(c, o, cj, fs)
		return nt
	}
	fw.Register(&fw.Prop{
		ID: "C04", Cases: tierN(200000, 2500000), Run: snapRun(prValid, true, monC04f), Replay: snapReplay(true, monC04f),
		Rule: "cases as C01; oracle (a) every output vertex is the centre of a pixel containing an input vertex, (b) exact test that every output edge lies in the half-pixel Chebyshev tube of the input boundary, (c) half-pixel lattice samples farther than one pixel (Chebyshev) from the input boundary are covered by the output iff by the input; non-trivial = at least one interior and one exterior sample survived the distance filter",
		Required: func(string) []string {
			return []string{"hole_survives", "splits_into_parts", "part_collapses", "coverage_samples_inside", "coverage_samples_outside"}
		},
		MinNonTriv:  1000,
		Assumptions: []string{"Chebyshev distance for the one-pixel filter (subset of the Euclidean reading)", "sample lattice capped at 40x40 per polygon and matrix", "panics are judged by C06"},
		Technique:   "runtime monitor: exact tube/coverage oracle over generated valid polygons",
	})

	// ---------------- C18 ----------------
	prC18 := &Profile{Sets: defaultSets, Kinds: []string{"comb", "comb", "sliver", "sliver", "spiky", "rectholes", "grow", "grow", "star", "angle", "border", "moat", "nest", "lobes", "longflat"}, ValidOnly: true, Huge: true, HugeRate: 4000, Zoo: true, Repeat: true}
	monC18f := func(c *fw.Ctx, o *Obs, cj []byte) bool {
		if !o.Valid {
			c.Rec.Count("skipped:invalid-after-placement")
			return false
		}
		fs, checked, m2 := monC18(o)
		c.Rec.Add("level_cases_with_M<=2", int64(checked))
		c.Rec.Add("level_cases_with_M=2", int64(m2))
		c.Rec.Add("level_cases_with_M>=3_not_judged", int64(len(o.UIDs)-checked))
		nt := m2 > 0
		for _, z := range o.UIDs {
			l := o.Level(z)
			if l.Facts.MaxMult > 2 {
				continue
			}
			for _, ch := range l.Facts.Chains {
				if len(ch) < 3 {
					nt = true
					c.Rec.Count("collapsed_chain")
				}
			}
			if len(l.OutK) > 1 {
				c.Rec.Count("multiple_output_polygons")
			}
			for _, pg := range l.OutK {
				if len(pg) > 1 {
					c.Rec.Count("output_polygon_with_hole")
				}
			}
		}
		report(c, o, cj, fs)
		return nt
	}
	fw.Register(&fw.Prop{
		ID: "C18", Cases: tierN(300000, 6000000), Run: snapRun(prC18, true, monC18f), Replay: snapReplay(true, monC18f),
		Rule: "cases = valid polygons from the comb/sliver/spiky/rectholes/grow generators; judged only at tile matrices where the oracle's routed boundary visits no pixel centre more than twice; oracle = every output edge is a routed edge or a straight run, every hole in-or-on its shell, exact big-integer signed-area conservation; non-trivial = max multiplicity 2 or a chain with < 3 centres",
		Required: func(string) []string {
			return []string{"level_cases_with_M=2", "collapsed_chain", "multiple_output_polygons", "output_polygon_with_hole"}
		},
		MinNonTriv:  1000,
		Assumptions: []string{"routed boundary computed by the exact oracle of C02", "panics are judged by C06"},
		Technique:   "runtime monitor: exact area-conservation and edge-provenance oracle",
	})
}
