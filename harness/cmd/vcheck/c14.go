package main

import (
	"bytes"
	"encoding/json"
	"fmt"
	"math"
	"os"
	"os/exec"
	"path/filepath"
	"sort"
	"strconv"
	"strings"

	"verifharness/fw"
	"verifharness/grid"

	"github.com/go-spatial/geom"
	"github.com/pdok/texel/pointindex"
	"github.com/pdok/texel/tms20"
)

func repoTMSPath(name string) string {
	return filepath.Join("/repo/tms20/tilematrixsets", name+".json")
}

func loadDoc(name string) (map[string]any, error) {
	b, err := os.ReadFile(repoTMSPath(name))
	if err != nil {
		return nil, err
	}
	var doc map[string]any
	dec := json.NewDecoder(bytes.NewReader(b))
	if err := dec.Decode(&doc); err != nil {
		return nil, err
	}
	return doc, nil
}

func cloneDoc(d map[string]any) map[string]any {
	b, _ := json.Marshal(d)
	var o map[string]any
	_ = json.Unmarshal(b, &o)
	return o
}

// trueQuadTree: independent predicate on the JSON document.
func trueQuadTree(doc map[string]any) (bool, string) {
	raw, ok := doc["tileMatrices"].([]any)
	if !ok || len(raw) == 0 {
		return false, "no tile matrices"
	}
	type tmx struct {
		id                   int
		mw, mh, tw, th, cell float64
		ox, oy               float64
		corner               string
		variable             bool
	}
	var tms []tmx
	for _, r := range raw {
		m, ok := r.(map[string]any)
		if !ok {
			return false, "tile matrix not an object"
		}
		ids, _ := m["id"].(string)
		id, err := strconv.Atoi(ids)
		if err != nil {
			return false, "id not an integer: " + ids
		}
		num := func(k string) float64 { f, _ := m[k].(float64); return f }
		t := tmx{id: id, mw: num("matrixWidth"), mh: num("matrixHeight"), tw: num("tileWidth"), th: num("tileHeight"), cell: num("cellSize")}
		if po, ok := m["pointOfOrigin"].([]any); ok && len(po) == 2 {
			t.ox, _ = po[0].(float64)
			t.oy, _ = po[1].(float64)
		} else {
			return false, "no point of origin"
		}
		t.corner, _ = m["cornerOfOrigin"].(string)
		if t.corner == "" {
			t.corner = "topLeft"
		}
		if v, ok := m["variableMatrixWidths"]; ok && v != nil {
			if l, isList := v.([]any); !isList || len(l) > 0 {
				t.variable = true
			}
		}
		tms = append(tms, t)
	}
	sort.Slice(tms, func(i, j int) bool { return tms[i].id < tms[j].id })
	for i, t := range tms {
		switch {
		case t.id != i:
			return false, fmt.Sprintf("ids are not 0..n-1 (position %d has id %d)", i, t.id)
		case t.mw != t.mh:
			return false, fmt.Sprintf("matrix %d not square", t.id)
		case t.tw != t.th:
			return false, fmt.Sprintf("tiles of matrix %d not square", t.id)
		case t.variable:
			return false, fmt.Sprintf("matrix %d has variable widths", t.id)
		case t.mw < 1 || t.tw < 1 || t.cell <= 0:
			return false, fmt.Sprintf("matrix %d has non-positive sizes", t.id)
		}
		if i > 0 {
			p := tms[i-1]
			switch {
			case t.ox != p.ox || t.oy != p.oy:
				return false, fmt.Sprintf("matrix %d has another origin", t.id)
			case t.corner != p.corner:
				return false, fmt.Sprintf("matrix %d has another corner of origin", t.id)
			case t.tw != p.tw:
				return false, fmt.Sprintf("matrix %d has another tile size", t.id)
			case t.mw != 2*p.mw:
				return false, fmt.Sprintf("matrix %d does not double matrix %d", t.id, p.id)
			case math.Abs(p.cell/t.cell-2) > 0.01:
				return false, fmt.Sprintf("cell size of matrix %d is not half of matrix %d", t.id, p.id)
			}
		}
	}
	return true, ""
}

type mutant struct {
	Base  string `json:"base"`
	Kind  string `json:"kind"`
	Index int    `json:"index"` // position in the tileMatrices array
}

var c14Kinds = []string{"none", "matrixWidth*2", "matrixHeight+1", "matrixWidth&Height*2", "matrixWidth&Height+1", "matrixWidth&Height-1", "tileWidth&Height/2", "tileWidth&Height*2", "cellSize*0.98", "matrix/2&tile*2", "matrix*2&tile/2", "tileWidth/2", "tileHeight/2", "origin.x+1", "origin.y-1e-6", "origin.x+ulp", "origin.x-ulp", "origin.y+ulp", "origin.y-ulp", "corner-flipped",
	"cellSize*1.02", "cellSize*2", "cellSize/2", "id+100", "remove", "variableMatrixWidths", "ids-at-int64-wrap", "ids-from-MaxInt64-1"}

func applyMutant(doc map[string]any, m mutant) map[string]any {
	d := cloneDoc(doc)
	tms := d["tileMatrices"].([]any)
	if m.Index >= len(tms) {
		return nil
	}
	tm := tms[m.Index].(map[string]any)
	f := func(k string) float64 { v, _ := tm[k].(float64); return v }
	switch m.Kind {
	case "none":
	case "matrixWidth*2":
		tm["matrixWidth"] = f("matrixWidth") * 2
	case "matrixHeight+1":
		tm["matrixHeight"] = f("matrixHeight") + 1
	case "matrixWidth&Height*2":
		tm["matrixWidth"], tm["matrixHeight"] = f("matrixWidth")*2, f("matrixHeight")*2
	case "matrixWidth&Height+1": // stays square, no longer exactly double
		tm["matrixWidth"], tm["matrixHeight"] = f("matrixWidth")+1, f("matrixHeight")+1
	case "matrixWidth&Height-1":
		tm["matrixWidth"], tm["matrixHeight"] = f("matrixWidth")-1, f("matrixHeight")-1
	case "tileWidth&Height/2": // stays square, tile size no longer the same on every level
		tm["tileWidth"], tm["tileHeight"] = f("tileWidth")/2, f("tileHeight")/2
	case "tileWidth&Height*2":
		tm["tileWidth"], tm["tileHeight"] = f("tileWidth")*2, f("tileHeight")*2
	case "cellSize*0.98":
		tm["cellSize"] = f("cellSize") * 0.98
	case "matrix/2&tile*2": // the pixel grid still doubles, the matrix and the tile size each break their own rule
		tm["matrixWidth"], tm["matrixHeight"] = f("matrixWidth")/2, f("matrixHeight")/2
		tm["tileWidth"], tm["tileHeight"] = f("tileWidth")*2, f("tileHeight")*2
	case "matrix*2&tile/2":
		tm["matrixWidth"], tm["matrixHeight"] = f("matrixWidth")*2, f("matrixHeight")*2
		tm["tileWidth"], tm["tileHeight"] = f("tileWidth")/2, f("tileHeight")/2
	case "tileWidth/2":
		tm["tileWidth"] = f("tileWidth") / 2
	case "tileHeight/2":
		tm["tileHeight"] = f("tileHeight") / 2
	case "origin.x+1":
		po := tm["pointOfOrigin"].([]any)
		po[0] = po[0].(float64) + 1
	case "origin.y-1e-6":
		po := tm["pointOfOrigin"].([]any)
		po[1] = po[1].(float64) - 1e-6
	case "origin.x+ulp", "origin.x-ulp", "origin.y+ulp", "origin.y-ulp": // the nearest other float64: still another origin
		po := tm["pointOfOrigin"].([]any)
		ax, dir := 0, math.Inf(1)
		if m.Kind[7] == 'y' {
			ax = 1
		}
		if m.Kind[8] == '-' {
			dir = math.Inf(-1)
		}
		po[ax] = math.Nextafter(po[ax].(float64), dir)
	case "corner-flipped":
		if c, _ := tm["cornerOfOrigin"].(string); c == "bottomLeft" {
			tm["cornerOfOrigin"] = "topLeft"
		} else {
			tm["cornerOfOrigin"] = "bottomLeft"
		}
	case "cellSize*1.02":
		tm["cellSize"] = f("cellSize") * 1.02
	case "cellSize*2":
		tm["cellSize"] = f("cellSize") * 2
	case "cellSize/2":
		tm["cellSize"] = f("cellSize") / 2
	case "id+100":
		id, _ := strconv.Atoi(tm["id"].(string))
		tm["id"] = strconv.Itoa(id + 100)
	case "ids-at-int64-wrap", "ids-from-MaxInt64-1":
		// only the matrices from this index on, renumbered so that "the next id" overflows: ..., MaxInt64, MinInt64, ...
		// (not consecutive from 0 by any reading)
		rest := tms[m.Index:]
		if len(rest) < 2 {
			return nil
		}
		if len(rest) > 3 {
			rest = rest[:3]
		}
		first := int64(math.MaxInt64)
		if m.Kind == "ids-from-MaxInt64-1" {
			first = math.MaxInt64 - 1
		}
		for i, e := range rest {
			e.(map[string]any)["id"] = strconv.FormatInt(first+int64(i), 10) // wraps past MaxInt64
		}
		d["tileMatrices"] = append([]any{}, rest...)
	case "remove":
		d["tileMatrices"] = append(append([]any{}, tms[:m.Index]...), tms[m.Index+1:]...)
	case "variableMatrixWidths":
		tm["variableMatrixWidths"] = []any{map[string]any{"coalesce": 2.0, "minTileRow": 0.0, "maxTileRow": 0.0}}
	}
	return d
}

// validateInProcess mirrors what validation consists of: IsQuadTree, then (if it passes) DeviationStats for a present id.
func validateInProcess(docJSON []byte) (verdict string, detail string) {
	defer func() {
		if r := recover(); r != nil {
			verdict, detail = "panic", fmt.Sprint(r)
		}
	}()
	var t tms20.TileMatrixSet
	if err := json.Unmarshal(docJSON, &t); err != nil {
		return "reject", "decode: " + err.Error()
	}
	if err := pointindex.IsQuadTree(t); err != nil {
		return "reject", "IsQuadTree: " + err.Error()
	}
	ids := []int{}
	for id := range t.TileMatrices {
		ids = append(ids, id)
	}
	sort.Ints(ids)
	deepest := ids[0]
	for _, id := range ids {
		if id <= 18 {
			deepest = max(deepest, id)
		}
	}
	if _, _, _, err := pointindex.DeviationStats(t, deepest); err != nil {
		return "reject", "passed IsQuadTree; DeviationStats: " + err.Error()
	}
	return "accept", ""
}

func judgeMutant(c *fw.Ctx, m mutant) {
	cj, _ := json.Marshal(m)
	c.Rec.SetCurrent(cj)
	doc, err := loadDoc(m.Base)
	if err != nil {
		c.Rec.Note(err.Error())
		return
	}
	md := applyMutant(doc, m)
	if md == nil {
		return
	}
	b, _ := json.Marshal(md)
	tq, why := trueQuadTree(md)
	verdict, detail := validateInProcess(b)
	c.Rec.Eval()
	c.Rec.Count("mutant:" + m.Kind)
	c.Rec.Count("verdict:" + verdict)
	n := len(doc["tileMatrices"].([]any))
	where := "middle"
	if m.Index == 0 {
		where = "first"
	} else if m.Index == n-1 {
		where = "last"
	}
	c.Rec.Count("position:" + where)
	switch {
	case verdict == "panic":
		c.Rec.Violation("validation-panics", "", fmt.Sprintf("%s with %s at tile matrix index %d: validation panicked: %s", m.Base, m.Kind, m.Index, detail), cj, map[string]any{"true_quadtree": tq, "why_not": why})
	case !tq && verdict == "accept":
		c.Rec.Violation("broken-quadtree-accepted", "", fmt.Sprintf("%s with %s at tile matrix index %d (%s) is not a true quadtree (%s) but passes validation", m.Base, m.Kind, m.Index, where, why), cj, nil)
	case tq && (m.Kind == "none" || m.Kind == "remove" && m.Index == n-1) && verdict != "accept":
		c.Rec.Violation("true-quadtree-rejected", "", fmt.Sprintf("%s with %s at index %d is still a true quadtree but is rejected: %s", m.Base, m.Kind, m.Index, detail), cj, nil)
	}
	if !tq {
		c.Rec.Count("demanded_rejects")
		c.Rec.NonTrivial(fw.Hash64(cj))
	} else {
		c.Rec.Count("still_true_quadtrees")
	}
	if c.Rec.WantSample() && m.Kind != "none" {
		c.Rec.Sample(map[string]any{"mutant": m, "oracle_true_quadtree": tq, "oracle_reason": why, "validation": verdict, "validation_detail": detail})
	}
}

// judgeBuiltin: accepted => true quadtree and pixel size = cell size / 16; rejected => error, not panic.
func judgeBuiltin(c *fw.Ctx, name string) {
	cj, _ := json.Marshal(mutant{Base: name, Kind: "builtin"})
	c.Rec.SetCurrent(cj)
	doc, err := loadDoc(name)
	if err != nil {
		c.Rec.Note(err.Error())
		return
	}
	b, _ := json.Marshal(doc)
	tq, why := trueQuadTree(doc)
	verdict, detail := validateInProcess(b)
	c.Rec.Eval()
	c.Rec.Count("builtin:" + verdict)
	c.Rec.NonTrivial(fw.Hash64(cj))
	switch {
	case verdict == "panic":
		c.Rec.Violation("validation-panics", "", fmt.Sprintf("built-in %s: validation panicked: %s", name, detail), cj, nil)
		return
	case verdict == "accept" && !tq:
		c.Rec.Violation("broken-quadtree-accepted", "", fmt.Sprintf("built-in %s passes validation but is not a true quadtree: %s", name, why), cj, nil)
		return
	case verdict == "reject":
		c.Rec.Sample(map[string]any{"builtin": name, "validation": "reject", "detail": detail, "oracle_true_quadtree": tq})
		return
	}
	// pixel size relation, measured through the index
	gs, err := getSet(grid.Spec{Name: name})
	if err != nil {
		c.Rec.Note(err.Error())
		return
	}
	for _, z := range gs.IDs {
		if gs.Level(z) > 32 {
			continue
		}
		tm := gs.TMS.TileMatrices[z]
		p := tm.CellSize / 16
		ax, ay := gs.BL[0]+(gs.TR[0]-gs.BL[0])/3, gs.BL[1]+(gs.TR[1]-gs.BL[1])/3
		a, b2 := [2]float64{ax, ay}, [2]float64{ax + p, ay}
		var got [][2]float64
		var pan any
		func() {
			defer func() { pan = recover() }()
			ix, err := pointindex.FromTileMatrixSet(gs.TMS, z)
			if err != nil {
				panic(err)
			}
			if err := ix.InsertPoint(a); err != nil {
				panic(err)
			}
			if err := ix.InsertPoint(b2); err != nil {
				panic(err)
			}
			got = ix.SnapClosestPoints(geom.Line{a, b2}, map[pointindex.Level]any{gs.Level(z): struct{}{}}, 0)[gs.Level(z)]
		}()
		c.Rec.Count("pixel_size_measurements")
		if pan != nil || len(got) != 2 {
			c.Rec.Violation("pixel-size-is-not-cellsize/16", "", fmt.Sprintf("%s tile matrix %d: two points one cellSize/16 (%g) apart should snap to two neighbouring pixel centres, got %v (panic %v)", name, z, p, got, pan), cj, nil)
			continue
		}
		dx := got[1][0] - got[0][0]
		if math.Abs(dx/p-1) > 1e-6 || got[0][1] != got[1][1] {
			c.Rec.Violation("pixel-size-is-not-cellsize/16", "", fmt.Sprintf("%s tile matrix %d: neighbouring pixel centres are %g apart, cellSize/16 = %g", name, z, dx, p), cj, map[string]any{"centres": got})
		}
		// and the centre sits at (k+1/2) pixels from the extent corner
		_, devU, _, _ := pointindex.DeviationStats(gs.TMS, z)
		for axn := 0; axn < 2; axn++ {
			d, _ := idealCentreDistance(got[0][axn], gs.BL[axn], gs.TR[0]-gs.BL[0], gs.Level(z))
			if d > math.Abs(devU)+1e-8 {
				c.Rec.Violation("pixel-grid-not-anchored-at-extent-corner", "", fmt.Sprintf("%s tile matrix %d: centre ordinate %v is %g from the ideal centre (reported deviation %g)", name, z, got[0][axn], d, devU), cj, nil)
			}
		}
	}
}

// c14Mutants enumerates the complete perturbation set.
func c14Mutants() []mutant {
	var out []mutant
	for _, name := range builtinNames {
		doc, err := loadDoc(name)
		if err != nil {
			continue
		}
		b, _ := json.Marshal(doc)
		if v, _ := validateInProcessQuiet(b); v != "accept" {
			continue
		}
		n := len(doc["tileMatrices"].([]any))
		for i := 0; i < n; i++ {
			for _, k := range c14Kinds {
				if k == "none" && i > 0 {
					continue
				}
				out = append(out, mutant{Base: name, Kind: k, Index: i})
			}
		}
	}
	return out
}

func validateInProcessQuiet(b []byte) (string, string) { return validateInProcess(b) }

// e2e: the real binary with hook H2.
func c14E2E(p *fw.ParentCtx) {
	bin := os.Getenv("VERIF_TEXEL_BIN")
	if bin == "" {
		p.Inconclusive = append(p.Inconclusive, "texel binary not built (VERIF_TEXEL_BIN unset)")
		return
	}
	dir := filepath.Join(p.Tmp, "c14tms")
	_ = os.MkdirAll(dir, 0o755)
	type job struct {
		name string
		m    mutant
		tq   bool
		ids  string
	}
	var jobs []job
	rng := fw.NewRng(uint64(p.Seed) + 14)
	all := c14Mutants()
	for _, name := range builtinNames {
		jobs = append(jobs, job{name: name, m: mutant{Base: name, Kind: "builtin"}})
	}
	for i, m := range all {
		if p.Tier != "thorough" && rng.Intn(len(all)) >= 400 && !(m.Kind == "variableMatrixWidths" && m.Index <= 1 && m.Base == "NetherlandsRDNewQuad") {
			continue
		}
		jobs = append(jobs, job{name: fmt.Sprintf("m%d", i), m: m})
	}
	ran, accepted, rejected := 0, 0, 0
	for i := range jobs {
		j := &jobs[i]
		doc, err := loadDoc(j.m.Base)
		if err != nil {
			continue
		}
		jobDir := filepath.Join(dir, "empty")
		if j.m.Kind != "builtin" {
			// one directory per document: hook H2 decodes every file of the directory at start-up
			doc = applyMutant(doc, j.m)
			if doc == nil { // the perturbation does not apply at this index (e.g. an id-wrap kind on the last matrix)
				continue
			}
			b, _ := json.Marshal(doc)
			jobDir = filepath.Join(dir, j.name)
			_ = os.MkdirAll(jobDir, 0o755)
			_ = os.WriteFile(filepath.Join(jobDir, j.name+".json"), b, 0o644)
		}
		j.tq, _ = trueQuadTree(doc)
		// request the smallest and the largest (<= 18) id present in the document
		var ids []int
		for _, r := range doc["tileMatrices"].([]any) {
			if id, err := strconv.Atoi(r.(map[string]any)["id"].(string)); err == nil {
				ids = append(ids, id)
			}
		}
		sort.Ints(ids)
		req := []int{ids[0]}
		for _, id := range ids {
			if id <= 18 && id > req[len(req)-1] {
				req = append(req[:1], id)
			}
		}
		zb, _ := json.Marshal(req)
		j.ids = string(zb)
		cmd := exec.Command("timeout", "-s", "QUIT", "60", bin, "-s", filepath.Join(p.Tmp, "does-not-exist.gpkg"), "-t", filepath.Join(p.Tmp, "c14out.gpkg"), "-tms", j.name, "-z", j.ids)
		cmd.Env = append(os.Environ(), "TEXEL_VERIF_TMS_DIR="+jobDir)
		var stderr bytes.Buffer
		cmd.Stderr = &stderr
		err = cmd.Run()
		if j.m.Kind != "builtin" {
			_ = os.RemoveAll(jobDir)
		}
		ran++
		code := 0
		if ee, ok := err.(*exec.ExitError); ok {
			code = ee.ExitCode()
		}
		se := stderr.String()
		isPanic := strings.Contains(se, "panic:") || strings.Contains(se, "goroutine ") || code == 2
		passed := strings.Contains(se, "error opening source GeoPackage")
		cj, _ := json.Marshal(j.m)
		add := func(class, msg string) {
			p.Merged.ViolCount[class]++
			p.Merged.Violations = append(p.Merged.Violations, fw.Violation{Property: "C14", Class: class, Msg: msg, Case: cj, Detail: map[string]any{"stderr": tailStr(se, 800), "exit": code, "requested": j.ids}})
		}
		switch {
		case isPanic:
			add("e2e-validation-panics", fmt.Sprintf("texel -tms %s (%s %s@%d) -z %s ended with a panic (exit %d): %s", j.name, j.m.Base, j.m.Kind, j.m.Index, j.ids, code, firstLine(se, "panic:")))
		case passed && !j.tq:
			add("e2e-broken-quadtree-accepted", fmt.Sprintf("texel -tms %s (%s %s@%d) passed validation although the set is not a true quadtree", j.name, j.m.Base, j.m.Kind, j.m.Index))
		case !passed && code == 0:
			add("e2e-unexpected-exit", fmt.Sprintf("texel -tms %s exited 0 without a source file", j.name))
		}
		if passed {
			accepted++
		} else {
			rejected++
		}
	}
	p.Extra["e2e_binary_runs"] = ran
	p.Extra["e2e_passed_validation"] = accepted
	p.Extra["e2e_rejected"] = rejected
	if ran == 0 || accepted == 0 || rejected == 0 {
		p.Inconclusive = append(p.Inconclusive, fmt.Sprintf("e2e observed ran=%d accepted=%d rejected=%d", ran, accepted, rejected))
	}
}

func tailStr(s string, n int) string {
	if len(s) > n {
		return s[len(s)-n:]
	}
	return s
}

func firstLine(s, prefix string) string {
	for _, l := range strings.Split(s, "\n") {
		if strings.HasPrefix(l, prefix) {
			return l
		}
	}
	if i := strings.IndexByte(s, '\n'); i > 0 {
		return s[:i]
	}
	return s
}

func init() {
	var all []mutant
	cases := func(string) int64 {
		if all == nil {
			all = c14Mutants()
		}
		return int64(len(all) + len(builtinNames))
	}
	fw.Register(&fw.Prop{
		ID: "C14", Cases: cases,
		Run: func(c *fw.Ctx) {
			if all == nil {
				all = c14Mutants()
			}
			if int(c.Idx) < len(builtinNames) {
				judgeBuiltin(c, builtinNames[c.Idx])
				return
			}
			judgeMutant(c, all[int(c.Idx)-len(builtinNames)])
			c.Rec.Count("exh:perturbations")
		},
		Replay: func(c *fw.Ctx, raw json.RawMessage) {
			var m mutant
			if err := json.Unmarshal(raw, &m); err != nil {
				c.Rec.Note(err.Error())
				return
			}
			if m.Kind == "builtin" {
				judgeBuiltin(c, m.Base)
			} else {
				judgeMutant(c, m)
			}
		},
		Extra: c14E2E,
		Rule:  "all 14 built-in documents: accepted => independent true-quadtree predicate on the JSON document and measured pixel size (two points cellSize/16 apart through InsertPoint/SnapClosestPoints) = cellSize/16 within 1e-6, rejected => error not panic; every accepted built-in x every tile matrix index x 21 perturbations (single fields, and width&height / tile width&height pairs that keep things square): validation (IsQuadTree, then DeviationStats) must reject what the oracle says is no true quadtree, must accept the unmodified set and the set without its last matrix, must never panic; at the process boundary the real binary (hook H2) is run on all built-ins and a sample (thorough: all) of the mutants: exit by error vs panic vs proceeding to 'error opening source'; non-trivial = mutant that is no true quadtree",
		Required: func(string) []string {
			return []string{"builtin:accept", "builtin:reject", "demanded_rejects", "still_true_quadtrees", "position:first", "position:middle", "position:last", "pixel_size_measurements", "verdict:accept", "verdict:reject"}
		},
		MinNonTriv:  500,
		Exhaustive:  map[string]string{"exh:perturbations": "every accepted built-in set x every tile matrix index x the 22 perturbation kinds (incl. none) (in-process validation)"},
		Assumptions: []string{"requested ids are always ids present in the document", "cell-size perturbations of 2 % and 100 % count as breaking 'exactly doubling'; perturbations below 1 % carry no demand", "in-process composition = IsQuadTree then DeviationStats; the order main uses is observed only through the binary"},
		Technique:   "runtime monitor: independent quadtree predicate vs validation verdicts, in-process and at the process boundary (hook H2)",
		FlushEvery:  500,
	})
}

func readFileBytes(p string) ([]byte, error) { return os.ReadFile(p) }
