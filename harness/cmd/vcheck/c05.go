package main

import (
	"encoding/json"
	"fmt"

	"verifharness/fw"
)

func judgeC05(c *fw.Ctx, sc *SnapCase) {
	cj := sc.JSON()
	c.Rec.SetCurrent(cj)
	off, on := *sc, *sc
	off.Keep, on.Keep = false, true
	oOff, err := observe(&off)
	if err != nil {
		c.Rec.Note(err.Error())
		return
	}
	oOn, _ := observe(&on)
	c.Rec.Eval()
	c.Rec.Count("gen:" + sc.Kind)
	countSet(c.Rec, sc)
	if !oOff.Valid {
		c.Rec.Count("invalid_input")
	}
	if oOff.Panic != nil || oOn.Panic != nil {
		o := oOff
		if o.Panic == nil {
			o = oOn
		}
		c.Rec.Abort(fmt.Sprintf("snap.SnapPolygon panicked (%s at %s); judged by C06", o.PanicText, o.PanicSite), cj)
		return
	}
	if !oOff.AllInside {
		c.Rec.Count("skipped:outside")
		return
	}
	nt := false
	for _, o := range []*Obs{oOff, oOn} {
		fs, st := monC05(o)
		ocj := o.Case.JSON()
		for _, f := range fs {
			c.Rec.Violation(f.class, f.sig, f.msg, ocj, o.Detail(f.z))
		}
		c.Rec.Add("split_into_several_polygons", int64(st.split))
		c.Rec.Add("collapse_to_line", int64(st.collapseLine))
		c.Rec.Add("collapse_to_point", int64(st.collapsePoint))
		c.Rec.Add("zero_area_rings_with_3+_vertices(not judged)", int64(st.zeroAreaRing))
		if st.split+st.collapseLine+st.collapsePoint > 0 {
			nt = true
		}
		for _, z := range o.UIDs {
			c.Rec.Count("level_cases")
			if _, ok := o.Got[z]; !ok {
				c.Rec.Count("whole_polygon_collapse(id absent)")
				nt = true
			}
			for _, pg := range o.Got[z] {
				c.Rec.Add("rings_checked", int64(len(pg)))
				if len(pg) > 1 {
					c.Rec.Count("polygon_with_holes")
				}
			}
		}
	}
	for _, f := range monC05rel(oOff, oOn) {
		c.Rec.Violation(f.class, f.sig, f.msg, cj, map[string]any{"without_keep": oOff.Got, "with_keep": oOn.Got})
	}
	if nt {
		c.Rec.NonTrivial(fw.Hash64(cj))
	}
	if c.Rec.WantSample() {
		c.Rec.Sample(map[string]any{"case": sc, "without_keep": oOff.Got, "with_keep": oOn.Got})
	}
}

func init() {
	pr := &Profile{Sets: defaultSets, Kinds: allKinds, Huge: true, HugeRate: 2000, Zoo: true, Repeat: true}
	fw.Register(&fw.Prop{
		ID: "C05", Cases: tierN(200000, 3000000),
		Run: func(c *fw.Ctx) {
			sc, why := genSnapCase(c.Rng, pr)
			if sc == nil {
				c.Rec.Count("skipped:" + why)
				return
			}
			judgeC05(c, sc)
		},
		Replay: func(c *fw.Ctx, raw json.RawMessage) {
			var sc SnapCase
			if err := json.Unmarshal(raw, &sc); err != nil {
				c.Rec.Note(err.Error())
				return
			}
			judgeC05(c, &sc)
		},
		Rule: "all generators incl. invalid polygons (junk, motif), dyadic/RD/WebMercator/ETRS89 grids, reverse-winding on/off; every polygon is snapped without and with keep-points-and-lines; oracle: no empty list, ring size, and for rings with non-zero exact area: orientation by position, no closing duplicate, no equal consecutive vertices, no vertex twice; relation: result without keep is a prefix of the result with keep, the rest being single 1-2 vertex rings; non-trivial = output split into several polygons, or a collapsed part, or a tile matrix absent",
		Required: func(string) []string {
			return []string{"split_into_several_polygons", "collapse_to_line", "collapse_to_point", "whole_polygon_collapse(id absent)", "invalid_input", "polygon_with_holes"}
		},
		MinNonTriv:  1000,
		Assumptions: []string{"zero-area rings with >= 3 vertices are counted, not judged (the statement speaks of rings with non-zero area)", "panics are judged by C06"},
		Technique:   "runtime monitor: ring well-formedness oracle + keep on/off relational check",
	})
}
