package main

import (
	"hash/crc32"
)

// forceCRC32 returns doc with the 12 bytes at pad (which must currently be '@') replaced by characters of '@'..'O' such that
// crc32.ChecksumIEEE of the result equals want. CRC-32 is affine over GF(2) in the message bits; each pad character
// contributes 4 free bits (0x40 ^ nibble), 48 in total (the 32 bits of 8 characters alone have rank 30); the 32x48 system is solved by Gaussian elimination. ok=false if the
// system is singular for this position (then the caller takes another document).
func forceCRC32(doc []byte, pad int, want uint32) ([]byte, bool) {
	base := append([]byte{}, doc...)
	for i := 0; i < 12; i++ {
		base[pad+i] = '@'
	}
	c0 := crc32.ChecksumIEEE(base)
	// effect of each of the 32 free bits
	var cols [48]uint32
	for b := 0; b < 48; b++ {
		t := append([]byte{}, base...)
		t[pad+b/4] ^= 1 << uint(b%4)
		cols[b] = crc32.ChecksumIEEE(t) ^ c0
	}
	target := want ^ c0
	// solve sum_{b in S} cols[b] == target
	type row struct {
		v    uint32 // combination of columns, as crc bits
		mask uint64 // which free bits
	}
	var basis [32]row
	var have [32]bool
	for b := 0; b < 48; b++ {
		r := row{cols[b], 1 << uint(b)}
		for bit := 31; bit >= 0; bit-- {
			if r.v>>uint(bit)&1 == 0 {
				continue
			}
			if have[bit] {
				r.v ^= basis[bit].v
				r.mask ^= basis[bit].mask
			} else {
				basis[bit], have[bit] = r, true
				break
			}
		}
	}
	var sol uint64
	t := target
	for bit := 31; bit >= 0; bit-- {
		if t>>uint(bit)&1 == 0 {
			continue
		}
		if !have[bit] {
			return nil, false
		}
		t ^= basis[bit].v
		sol ^= basis[bit].mask
	}
	out := base
	for b := 0; b < 48; b++ {
		if sol>>uint(b)&1 == 1 {
			out[pad+b/4] ^= 1 << uint(b%4)
		}
	}
	if crc32.ChecksumIEEE(out) != want {
		return nil, false
	}
	return out, true
}
