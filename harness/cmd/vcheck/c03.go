package main

import (
	"encoding/json"
	"fmt"
	"math"
	"math/big"
	"sync"

	"verifharness/fw"
	"verifharness/grid"

	"github.com/pdok/texel/pointindex"
	"github.com/pdok/texel/tms20"
)

var builtinNames = []string{"CDB1GlobalGrid", "CanadianNAD83_LCC", "EuropeanETRS89_LAEAQuad", "GNOSISGlobalGrid", "LINZAntarticaMapTilegrid", "NZTM2000Quad",
	"NetherlandsRDNewQuad", "UPSAntarcticWGS84Quad", "UPSArcticWGS84Quad", "UTM31WGS84Quad", "WGS1984Quad", "WebMercatorQuad", "WorldCRS84Quad", "WorldMercatorWGS84Quad"}

var (
	acceptedOnce sync.Once
	acceptedSets []*grid.Set
)

// acceptedBuiltins: built-in sets for which validation (IsQuadTree, as main composes it) returns no error.
func acceptedBuiltins() []*grid.Set {
	acceptedOnce.Do(func() {
		for _, name := range builtinNames {
			t, err := tms20.LoadEmbeddedTileMatrixSet(name)
			if err != nil {
				continue
			}
			ok := func() (ok bool) {
				defer func() {
					if recover() != nil {
						ok = false
					}
				}()
				return pointindex.IsQuadTree(t) == nil
			}()
			if !ok {
				continue
			}
			gs, err := getSet(grid.Spec{Name: name})
			if err == nil {
				acceptedSets = append(acceptedSets, gs)
			}
		}
	})
	return acceptedSets
}

func bf(f float64) *big.Float { return new(big.Float).SetPrec(200).SetFloat64(f) }

// idealCentreDistance: distance of ordinate v to the nearest ideal pixel centre of the grid starting at o with pixel size span/2^level.
func idealCentreDistance(v, o, span float64, level uint) (dist float64, k float64) {
	p := new(big.Float).SetPrec(200).Quo(bf(span), new(big.Float).SetPrec(200).SetMantExp(big.NewFloat(1), int(level)))
	rel := new(big.Float).SetPrec(200).Sub(bf(v), bf(o))
	q := new(big.Float).SetPrec(200).Quo(rel, p)
	qf, _ := q.Float64()
	k = math.Floor(qf)
	ideal := new(big.Float).SetPrec(200).Mul(new(big.Float).SetPrec(200).SetFloat64(k+0.5), p)
	ideal.Add(ideal, bf(o))
	d, _ := new(big.Float).SetPrec(200).Sub(bf(v), ideal).Float64()
	return math.Abs(d), k
}

func genC03Case(rng *fw.Rng) (*SnapCase, string) {
	sets := acceptedBuiltins()
	if len(sets) == 0 {
		return nil, "no-accepted-set"
	}
	gs := fw.Pick(rng, sets)
	if rng.Chance(1, 6) {
		// beyond the stated domain, same oracle: a translated copy of NetherlandsRDNewQuad whose corners do not convert
		// to integers evenly (x and y span may differ by a unit); the reported deviation must still bound the distance
		var tr []*grid.Set
		for _, z := range gridZoo() {
			if z.Spec.Name != "" {
				if t, err := getSet(z.Spec); err == nil {
					tr = append(tr, t)
				}
			}
		}
		if len(tr) > 0 {
			gs = fw.Pick(rng, tr)
		}
	}
	var usable []int
	for _, id := range gs.IDs {
		if gs.Level(id) <= 32 {
			usable = append(usable, id)
		}
	}
	k := 1 + rng.Intn(3)
	ids := []int{}
	for len(ids) < k {
		id := fw.Pick(rng, usable)
		if !containsInt(ids, id) {
			ids = append(ids, id)
		}
		if len(ids) == len(usable) {
			break
		}
	}
	req := gs.Request(ids)
	pix := req.ResD
	cx, cy := req.CoveredMax()
	size := int64(16+rng.Intn(80)) * pix // 1..6 cells of the deepest matrix
	var x0, y0 int64
	spanX, spanY := cx-gs.OX-size-2*pix, cy-gs.OY-size-2*pix
	if spanX <= 0 || spanY <= 0 {
		size = (cx - gs.OX) / 4
		spanX, spanY = cx-gs.OX-size-2*pix, cy-gs.OY-size-2*pix
		if spanX <= 0 {
			return nil, "extent-too-small"
		}
	}
	switch rng.Intn(4) {
	case 0: // far end
		x0, y0 = gs.OX+spanX-rng.Int63n(min(spanX, 100*pix)+1), gs.OY+spanY-rng.Int63n(min(spanY, 100*pix)+1)
	case 1: // near origin
		x0, y0 = gs.OX+rng.Int63n(min(spanX, 100*pix)+1), gs.OY+rng.Int63n(min(spanY, 100*pix)+1)
	default:
		x0, y0 = gs.OX+rng.Int63n(spanX), gs.OY+rng.Int63n(spanY)
	}
	nv := 3 + rng.Intn(2)
	ring := make([][2]float64, 0, nv)
	pts := []P{{x0 + rng.Int63n(size/4+1), y0 + rng.Int63n(size/4+1)}, {x0 + size - rng.Int63n(size/4+1), y0 + rng.Int63n(size/2+1)}, {x0 + size/2 + rng.Int63n(size/2+1), y0 + size - rng.Int63n(size/4+1)}}
	if nv == 4 {
		pts = append(pts, P{x0 + rng.Int63n(size/4+1), y0 + size/2 + rng.Int63n(size/2+1)})
	}
	for _, p := range pts {
		f, _ := grid.ToFloatPoint(p)
		ring = append(ring, f)
	}
	return &SnapCase{TMS: gs.Spec, IDs: ids, Keep: rng.Bool(), Reverse: rng.Chance(1, 4), Poly: [][][2]float64{ring}, Kind: "small-poly"}, ""
}

func judgeC03(c *fw.Ctx, sc *SnapCase) {
	cj := sc.JSON()
	c.Rec.SetCurrent(cj)
	gs, err := getSet(sc.TMS)
	if err != nil {
		c.Rec.Note(err.Error())
		return
	}
	c.Rec.Eval()
	req := gs.Request(sc.IDs)
	var devU float64
	var derr error
	var dpan any
	func() {
		defer func() { dpan = recover() }()
		_, devU, _, derr = pointindex.DeviationStats(gs.TMS, req.Deepest)
	}()
	if dpan != nil || derr != nil {
		c.Rec.Violation("deviation-stats-fails", "", fmt.Sprintf("DeviationStats(%s, %d) failed for a set accepted by validation: err=%v panic=%v", sc.TMS, req.Deepest, derr, dpan), cj, nil)
		return
	}
	res, pan := callSnap(sc, sc.IDs, sc.GeomPolygon(), sc.Reverse)
	if pan != nil {
		c.Rec.Abort(fmt.Sprintf("snap.SnapPolygon panicked: %v; judged by C06", pan), cj)
		return
	}
	countSet(c.Rec, sc)
	bound := math.Abs(devU) + 1e-8
	spanX := gs.TR[0] - gs.BL[0]
	ncoords := 0
	for z, pgs := range res {
		level := gs.Level(z)
		// relation of the pixel size used to the document's cell size
		tm := gs.TMS.TileMatrices[z]
		p := spanX / math.Pow(2, float64(level))
		if rel := p * 16 / tm.CellSize; math.Abs(rel-1) > 1e-6 {
			c.Rec.Violation("pixel-size-is-not-cellsize/16", "", fmt.Sprintf("%s tile matrix %d: level %d gives pixel size %g, the document's cell size / 16 = %g (ratio %g)", sc.TMS, z, level, p, tm.CellSize/16, rel), cj, nil)
		}
		for _, pg := range pgs {
			for _, ring := range pg {
				for _, pt := range ring {
					for ax := 0; ax < 2; ax++ {
						d, k := idealCentreDistance(pt[ax], gs.BL[ax], spanX, level)
						ncoords++
						c.Rec.Max(fmt.Sprintf("deviation_x1e9:%s", sc.TMS.Name), int64(d*1e9))
						if d > bound {
							c.Rec.Violation("not-a-pixel-centre", "", fmt.Sprintf("%s tile matrix %d (level %d): ordinate %d of %v is %.6g units from the nearest ideal pixel centre (pixel %v, size %.6g); reported deviation for deepest matrix %d is %.6g units", sc.TMS, z, level, ax, pt, d, k, p, req.Deepest, devU), cj,
								map[string]any{"tile_matrix": z, "level": level, "ordinate": pt[ax], "axis": ax, "distance": d, "pixel_index": k, "pixel_size": p, "deviation_units": devU, "result": res})
						}
						if ax == 0 {
							c.Rec.NonTrivial(fw.Hash64([]byte(fmt.Sprintf("%s/%d/%v", sc.TMS.Name, z, k))))
						}
					}
				}
			}
		}
	}
	c.Rec.Add("ordinates_checked", int64(ncoords))
	if ncoords >= 6 {
		c.Rec.Count("cases_returning_3+_coordinates")
	}
	for _, z := range sc.IDs {
		c.Rec.Count(fmt.Sprintf("id:%s/%d", sc.TMS.Name, z))
	}
	if c.Rec.WantSample() {
		c.Rec.Sample(map[string]any{"case": sc, "result": res, "reported_deviation_units": devU})
	}
}

func init() {
	fw.Register(&fw.Prop{
		ID: "C03", Cases: tierN(300000, 4000000),
		Run: func(c *fw.Ctx) {
			sc, why := genC03Case(c.Rng)
			if sc == nil {
				c.Rec.Count("skipped:" + why)
				return
			}
			judgeC03(c, sc)
		},
		Replay: func(c *fw.Ctx, raw json.RawMessage) {
			var sc SnapCase
			if err := json.Unmarshal(raw, &sc); err != nil {
				c.Rec.Note(err.Error())
				return
			}
			judgeC03(c, &sc)
		},
		Rule: "every built-in set accepted by IsQuadTree (and, in 1 case of 6, a translated copy of NetherlandsRDNewQuad whose corners do not convert to integers evenly: x span and y span differing by a unit) x random subsets (1-3) of its ids with level <= 32 x small polygons (1-6 cells) at uniform places, the far end and the origin end of the extent x flags; oracle in 200-bit floats: every returned ordinate v has |v - (o + (k+1/2)p)| <= |reported deviation of the deepest requested id| + 1e-8 with p = root extent / 2^level, o = extent corner; and p*16 equals the document's cell size within 1e-6 relative; non-trivial/distinct = (set, tile matrix, pixel column) triples seen in results",
		Required: func(string) []string {
			return []string{"cases_returning_3+_coordinates", "set:NetherlandsRDNewQuad", "set:WebMercatorQuad", "set:EuropeanETRS89_LAEAQuad"}
		},
		MinNonTriv:  500,
		Assumptions: []string{"ideal pixel size derived from the root matrix by exact halving (several documents state deep cell sizes with ~9 significant digits); relation to the document checked with relative tolerance 1e-6", "levels > 32 are C06's known finding KF-L33", "extent corner taken from MatrixBoundingBox (checked independently by C15)"},
		Technique:   "runtime monitor: high-precision pixel-centre oracle on SnapPolygon output",
	})
}
