package main

import (
	"encoding/json"
	"fmt"
	"math"
	"math/big"
	"strings"

	"verifharness/fw"

	"github.com/go-spatial/geom"
	"github.com/go-spatial/geom/slippy"
	"github.com/pdok/texel/tms20"
)

type tileCase struct {
	Set        string  `json:"set"`
	BottomLeft bool    `json:"bottom_left_variant"`
	ID         int     `json:"tile_matrix"`
	X, Y       uint    `json:"-"`
	TX         uint    `json:"x"`
	TY         uint    `json:"y"`
	Fx         float64 `json:"fx,omitempty"`
	Fy         float64 `json:"fy,omitempty"`
}

func axesSwapped(t *tms20.TileMatrixSet) bool {
	if len(t.OrderedAxes) == 0 {
		return false
	}
	switch strings.ToLower(t.OrderedAxes[0]) {
	case "lat", "y", "n":
		return true
	}
	return false
}

// variant returns the set as is, or with every matrix re-expressed with a bottom-left corner of origin.
func variant(name string, bottomLeft bool) (tms20.TileMatrixSet, error) {
	t, err := tms20.LoadEmbeddedTileMatrixSet(name)
	if err != nil || !bottomLeft {
		return t, err
	}
	swap := axesSwapped(&t)
	nt := t
	nt.TileMatrices = map[int]tms20.TileMatrix{}
	for id, tm := range t.TileMatrices {
		h := float64(tm.MatrixHeight) * float64(tm.TileHeight) * tm.CellSize
		po := *tm.PointOfOrigin
		if tm.CornerOfOrigin != tms20.BottomLeft {
			if swap {
				po[0] -= h
			} else {
				po[1] -= h
			}
		}
		tm.PointOfOrigin = &po
		tm.CornerOfOrigin = tms20.BottomLeft
		nt.TileMatrices[id] = tm
	}
	return nt, nil
}

func ulp(v float64) float64 { return math.Abs(math.Nextafter(v, math.Inf(1)) - v) }

// near: within the 9-decimal rounding (5e-10) plus 4 ulp of the largest magnitude a float64 evaluation of
// origin +- k*size passes through (mag), which is what any two-operation float computation may lose.
func near(got float64, want *big.Float, mag float64) bool {
	w, _ := want.Float64()
	d, _ := new(big.Float).SetPrec(200).Sub(bf(got), want).Float64()
	return math.Abs(d) <= 5e-10+4*ulp(math.Max(math.Abs(w), mag))
}

func mulAdd(o float64, k float64, a, b float64, sign float64) *big.Float {
	// o + sign*k*a*b in 200 bits
	t := new(big.Float).SetPrec(200).Mul(bf(a), bf(b))
	t.Mul(t, bf(k))
	if sign < 0 {
		t.Neg(t)
	}
	return t.Add(t, bf(o))
}

func judgeMatrix(c *fw.Ctx, name string, bottomLeft bool, id int, ntiles int) {
	t, err := variant(name, bottomLeft)
	if err != nil {
		c.Rec.Note(err.Error())
		return
	}
	tm := t.TileMatrices[id]
	if tm.VariableMatrixWidths != nil {
		c.Rec.Count("skipped:variable-widths")
		return
	}
	swap := axesSwapped(&t)
	po := *tm.PointOfOrigin
	ox, oy := po[0], po[1]
	if swap {
		ox, oy = po[1], po[0]
	}
	W, H := tm.MatrixWidth, tm.MatrixHeight
	tw, th, cell := float64(tm.TileWidth), float64(tm.TileHeight), tm.CellSize
	isBL := tm.CornerOfOrigin == tms20.BottomLeft
	tsx, tsy := tw*cell, th*cell
	magX := math.Max(math.Abs(ox), float64(W+1)*tsx)
	magY := math.Max(math.Abs(oy), float64(H+1)*tsy)
	cjOf := func(x, y uint, fx, fy float64) []byte {
		b, _ := json.Marshal(tileCase{Set: name, BottomLeft: bottomLeft, ID: id, TX: x, TY: y, Fx: fx, Fy: fy})
		return b
	}
	c.Rec.Count("matrices")
	if isBL {
		c.Rec.Count("corner:bottomLeft")
	} else {
		c.Rec.Count("corner:topLeft")
	}
	if swap {
		c.Rec.Count("axes:swapped(lat/lon or y/x documents)")
	} else {
		c.Rec.Count("axes:x,y")
	}
	// exact top-left corner of tile (x,y)
	exact := func(x, y uint) (*big.Float, *big.Float) {
		ex := mulAdd(ox, float64(x), tw, cell, 1)
		if isBL {
			return ex, mulAdd(oy, float64(y+1), th, cell, 1)
		}
		return ex, mulAdd(oy, float64(y), th, cell, -1)
	}
	tiles := [][2]uint{{0, 0}, {W - 1, 0}, {0, H - 1}, {W - 1, H - 1}}
	for k := 0; k < 8; k++ { // border tiles
		x, y := uint(c.Rng.Int63n(int64(W))), uint(c.Rng.Int63n(int64(H)))
		switch k % 4 {
		case 0:
			x = 0
		case 1:
			x = W - 1
		case 2:
			y = 0
		default:
			y = H - 1
		}
		tiles = append(tiles, [2]uint{x, y})
	}
	for k := 0; k < ntiles; k++ {
		tiles = append(tiles, [2]uint{uint(c.Rng.Int63n(int64(W))), uint(c.Rng.Int63n(int64(H)))})
	}
	for _, xy := range tiles {
		tile := slippy.NewTile(uint(id), xy[0], xy[1])
		var corner geom.Point
		var ok bool
		var pan any
		func() {
			defer func() { pan = recover() }()
			corner, ok = t.ToNative(tile)
		}()
		c.Rec.Eval()
		c.Rec.Count("tiles")
		c.Rec.NonTrivial(fw.Hash64([]byte(fmt.Sprintf("%s/%v/%d/%d/%d", name, bottomLeft, id, xy[0], xy[1]))))
		ex, ey := exact(xy[0], xy[1])
		if pan != nil || !ok || !near(corner[0], ex, magX) || !near(corner[1], ey, magY) {
			exf, _ := ex.Float64()
			eyf, _ := ey.Float64()
			c.Rec.Violation("wrong-tile-corner", "", fmt.Sprintf("%s (bottom-left variant %v) matrix %d tile (%d,%d): ToNative = %v ok=%v panic=%v, exact top-left corner in x,y order = (%.12g, %.12g)", name, bottomLeft, id, xy[0], xy[1], corner, ok, pan, exf, eyf), cjOf(xy[0], xy[1], 0, 0), nil)
			continue
		}
		// interior points from the exact bounds, margin max(1 % of the tile, 1e-7)
		exf, _ := ex.Float64()
		eyf, _ := ey.Float64()
		mx, my := math.Max(0.01*tsx, 1e-7), math.Max(0.01*tsy, 1e-7)
		if 2*mx >= tsx || 2*my >= tsy {
			c.Rec.Count("skipped:tile-smaller-than-margins")
			continue
		}
		// near-edge margins: what a float64 evaluation of (p - origin)/tileSize can resolve at this magnitude, plus the
		// 9-decimal rounding of the reported corners - far below 1 % of a tile on shallow matrices
		ex2, ey2 := 64*ulp(magX)+2e-9, 64*ulp(magY)+2e-9
		for k := 0; k < 9; k++ {
			fx, fy := c.Rng.Float64(), c.Rng.Float64()
			switch k {
			case 0:
				fx, fy = 0, 0
			case 1:
				fx, fy = 1, 1
			case 2:
				fx, fy = 0, 1
			}
			p := geom.Point{exf + mx + fx*(tsx-2*mx), eyf - my - fy*(tsy-2*my)}
			if k >= 5 {
				if 8*ex2 >= tsx || 8*ey2 >= tsy {
					continue
				}
				switch k {
				case 5: // just inside the left edge
					p = geom.Point{exf + ex2, eyf - tsy/2}
				case 6: // just inside the right (far) edge
					p = geom.Point{exf + tsx - ex2, eyf - tsy/2}
				case 7: // just inside the top edge
					p = geom.Point{exf + tsx/2, eyf - ey2}
				default: // just inside the bottom edge
					p = geom.Point{exf + tsx/2, eyf - tsy + ey2}
				}
				c.Rec.Count("near_edge_points")
			}
			var got *slippy.Tile
			var fok bool
			func() {
				defer func() { pan = recover() }()
				got, fok = t.FromNative(uint(id), p)
			}()
			c.Rec.Count("interior_points")
			if pan != nil || !fok || got == nil || got.X != xy[0] || got.Y != xy[1] || got.Z != uint(id) {
				c.Rec.Violation("point-inside-tile-maps-elsewhere", "", fmt.Sprintf("%s (bottom-left variant %v) matrix %d: point %v lies strictly inside tile (%d,%d) (bounds from x=%.12g, top y=%.12g, size %g x %g) but FromNative gives %v ok=%v panic=%v", name, bottomLeft, id, p, xy[0], xy[1], exf, eyf, tsx, tsy, got, fok, pan), cjOf(xy[0], xy[1], fx, fy), nil)
				break
			}
		}
	}
	// the tile one past the end is addressable by ToNative (bottom-right corner of the matrix)
	minX := bf(ox)
	maxX := mulAdd(ox, float64(W), tw, cell, 1)
	var minY, maxY *big.Float
	if isBL {
		minY, maxY = bf(oy), mulAdd(oy, float64(H), th, cell, 1)
	} else {
		minY, maxY = mulAdd(oy, float64(H), th, cell, -1), bf(oy)
	}
	var bl, tr geom.Point
	var pan any
	var berr error
	func() {
		defer func() { pan = recover() }()
		bl, tr, berr = t.MatrixBoundingBox(id)
	}()
	c.Rec.Count("bounding_boxes")
	f := func(b *big.Float) float64 { v, _ := b.Float64(); return v }
	if pan != nil || berr != nil || !near(bl[0], minX, magX) || !near(bl[1], minY, magY) || !near(tr[0], maxX, magX) || !near(tr[1], maxY, magY) {
		c.Rec.Violation("wrong-matrix-bounding-box", "", fmt.Sprintf("%s (bottom-left variant %v) matrix %d: MatrixBoundingBox = %v %v (err %v, panic %v), exact = (%.12g %.12g) (%.12g %.12g)", name, bottomLeft, id, bl, tr, berr, pan, f(minX), f(minY), f(maxX), f(maxY)), cjOf(0, 0, 0, 0), nil)
	} else {
		// corners of tile (0,0) and tile (W,H) through ToNative
		c0, ok0 := t.ToNative(slippy.NewTile(uint(id), 0, 0))
		c1, ok1 := t.ToNative(slippy.NewTile(uint(id), W, H))
		e0x, e0y := exact(0, 0)
		e1x, e1y := exact(W, H)
		if !ok0 || !ok1 || !near(c0[0], e0x, magX) || !near(c0[1], e0y, magY) || !near(c1[0], e1x, magX) || !near(c1[1], e1y, magY) {
			c.Rec.Violation("bounding-box-not-spanned-by-tile-corners", "", fmt.Sprintf("%s (bottom-left variant %v) matrix %d: ToNative(0,0) = %v ok=%v, ToNative(%d,%d) = %v ok=%v do not agree with the exact corners", name, bottomLeft, id, c0, ok0, W, H, c1, ok1), cjOf(W, H, 0, 0), nil)
		}
		// for the top-left convention these are exactly the bbox corners; for bottom-left they are one tile height above
		shift := 0.0
		if isBL {
			shift = tsy
		}
		tx, ty := 1e-9+8*ulp(magX), 1e-9+8*ulp(magY)
		if math.Abs(c0[0]-bl[0]) > tx || math.Abs(c1[0]-tr[0]) > tx ||
			(!isBL && (math.Abs(c0[1]-tr[1]) > ty || math.Abs(c1[1]-bl[1]) > ty)) ||
			(isBL && (math.Abs(c0[1]-shift-bl[1]) > ty || math.Abs(c1[1]-shift-tr[1]) > ty)) {
			c.Rec.Violation("bounding-box-not-spanned-by-tile-corners", "", fmt.Sprintf("%s (bottom-left variant %v) matrix %d: bbox %v %v vs corners of tile (0,0) %v and tile (%d,%d) %v", name, bottomLeft, id, bl, tr, c0, W, H, c1), cjOf(W, H, 0, 0), nil)
		}
	}
	// points 1 % of a tile outside each side map to no tile
	cxm, cym := (f(minX)+f(maxX))/2, (f(minY)+f(maxY))/2
	ex, ey := math.Max(0.01*tsx, 1e-7), math.Max(0.01*tsy, 1e-7)
	nan, inf := math.NaN(), math.Inf(1)
	for side, p := range map[string]geom.Point{"left": {f(minX) - ex, cym}, "right": {f(maxX) + ex, cym}, "below": {cxm, f(minY) - ey}, "above": {cxm, f(maxY) + ey},
		// far outside, and points that are in no tile because an ordinate is not a number (an empty point decodes to NaN NaN)
		"far right": {math.MaxFloat64, cym}, "far left": {-math.MaxFloat64, cym}, "far above": {cxm, 1e300}, "far below": {cxm, -1e300},
		"infinitely right": {inf, cym}, "infinitely left": {-inf, cym}, "infinitely above": {cxm, inf}, "infinitely below": {cxm, -inf},
		"nowhere (x is NaN)": {nan, cym}, "nowhere (y is NaN)": {cxm, nan}, "nowhere (NaN NaN)": {nan, nan}} {
		if p[0] != p[0] || p[1] != p[1] {
			c.Rec.Count("outside_points_with_NaN")
		}
		var got *slippy.Tile
		var fok bool
		func() {
			defer func() { pan = recover() }()
			got, fok = t.FromNative(uint(id), p)
		}()
		c.Rec.Count("outside_points")
		if pan != nil || fok {
			c.Rec.Violation("point-outside-matrix-maps-to-tile", "", fmt.Sprintf("%s (bottom-left variant %v) matrix %d: point %v is %s of the matrix extent (%.12g %.12g)-(%.12g %.12g) but FromNative gives %v ok=%v panic=%v", name, bottomLeft, id, p, side, f(minX), f(minY), f(maxX), f(maxY), got, fok, pan), cjOf(0, 0, 0, 0), nil)
		}
	}
	if c.Rec.WantSample() {
		c.Rec.Sample(map[string]any{"set": name, "bottom_left_variant": bottomLeft, "tile_matrix": id, "matrix_bbox": []geom.Point{bl, tr}, "tiles_checked": len(tiles)})
	}
}

type c15job struct {
	name string
	bl   bool
	id   int
}

func c15Jobs() []c15job {
	var out []c15job
	for _, name := range builtinNames {
		t, err := tms20.LoadEmbeddedTileMatrixSet(name)
		if err != nil {
			continue
		}
		for id := range t.TileMatrices {
			out = append(out, c15job{name, false, id}, c15job{name, true, id})
		}
	}
	// deterministic order
	for i := 1; i < len(out); i++ {
		for j := i; j > 0 && (out[j].name < out[j-1].name || out[j].name == out[j-1].name && (out[j].id < out[j-1].id || out[j].id == out[j-1].id && !out[j].bl && out[j-1].bl)); j-- {
			out[j], out[j-1] = out[j-1], out[j]
		}
	}
	return out
}

func init() {
	var jobs []c15job
	fw.Register(&fw.Prop{
		ID: "C15", Cases: func(string) int64 {
			if jobs == nil {
				jobs = c15Jobs()
			}
			return int64(len(jobs))
		},
		Run: func(c *fw.Ctx) {
			if jobs == nil {
				jobs = c15Jobs()
			}
			j := jobs[c.Idx]
			n := 60
			if c.Tier == "thorough" {
				n = 2000
			}
			cj, _ := json.Marshal(tileCase{Set: j.name, BottomLeft: j.bl, ID: j.id})
			c.Rec.SetCurrent(cj)
			judgeMatrix(c, j.name, j.bl, j.id, n)
		},
		Replay: func(c *fw.Ctx, raw json.RawMessage) {
			var tc tileCase
			if err := json.Unmarshal(raw, &tc); err != nil {
				c.Rec.Note(err.Error())
				return
			}
			judgeMatrix(c, tc.Set, tc.BottomLeft, tc.ID, 50)
		},
		Rule: "every tile matrix without variable widths of all 14 built-in sets, as is and re-expressed with a bottom-left corner of origin: 4 corner tiles, 8 border tiles and 60 (thorough 2000) random tiles; oracle in 200-bit floats from origin, tile size and corner convention, x,y order taken from the document's orderedAxes (independent of the EPSG table): ToNative = exact top-left corner within 5e-10 + 4 ulp of the largest intermediate magnitude; 5 interior points per tile built from the exact bounds with margin max(1 % tile, 1e-7), and 4 points just inside each edge (margin 64 ulp of the largest intermediate magnitude + 2e-9) map back to the tile; points 1 % outside each side, points at +-MaxFloat64/+-1e300/+-Inf and points with a NaN ordinate map to no tile; MatrixBoundingBox = exact box and is spanned by the corners of tiles (0,0) and (w,h); distinct = (set, variant, matrix, tile)",
		Required: func(string) []string {
			return []string{"corner:bottomLeft", "corner:topLeft", "axes:swapped(lat/lon or y/x documents)", "axes:x,y", "interior_points", "near_edge_points", "outside_points", "outside_points_with_NaN", "bounding_boxes", "skipped:variable-widths"}
		},
		MinNonTriv:  1000,
		Assumptions: []string{"9-decimal rounding of ToNative/MatrixBoundingBox is part of the design (tolerance 5e-10 + ulps)", "x,y order derived from orderedAxes: first axis lat/y/n means swapped"},
		Technique:   "runtime monitor: high-precision reference model of tile addressing",
		FlushEvery:  100,
	})
}
