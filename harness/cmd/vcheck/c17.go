package main

import (
	"encoding/json"
	"fmt"
	"math"
	"sync"

	"verifharness/fw"
	"verifharness/grid"

	"github.com/go-spatial/geom"
	"github.com/pdok/texel/morton"
	"github.com/pdok/texel/pointindex"
)

// refInterleave: bit-by-bit reference of the Z-order key (x on even bits, y on odd bits).
func refInterleave(x, y uint64) uint64 {
	var z uint64
	for i := uint(0); i < 32; i++ {
		z |= (x >> i & 1) << (2 * i)
		z |= (y >> i & 1) << (2*i + 1)
	}
	return z
}

type mortonCase struct {
	X, Y uint64
}

func checkPair(c *fw.Ctx, x, y uint64, seen map[uint64][2]uint64) {
	c.Rec.Eval()
	if x > 255 && y > 255 { // non-trivial pair; registered when its hash falls in a 1/256 sample (conservative undercount)
		if h := fw.Hash64([]byte(fmt.Sprintf("%x,%x", x, y))); h&0xff == 0 {
			c.Rec.NonTrivial(h)
		}
	}
	fail := func(class, msg string) {
		cj, _ := json.Marshal(mortonCase{x, y})
		c.Rec.Violation(class, "", msg, cj, nil)
	}
	fits := x <= math.MaxUint32 && y <= math.MaxUint32
	z, ok := morton.ToZ(uint(x), uint(y))
	if !fits {
		if ok {
			fail("unencodable-address-accepted", fmt.Sprintf("ToZ(%#x,%#x) reports ok although an ordinate needs more than 32 bits", x, y))
		}
		func() {
			defer func() {
				if recover() == nil {
					fail("MustToZ-does-not-panic", fmt.Sprintf("MustToZ(%#x,%#x) returned normally although an ordinate needs more than 32 bits", x, y))
				}
			}()
			morton.MustToZ(uint(x), uint(y))
		}()
		return
	}
	if !ok {
		fail("encodable-address-rejected", fmt.Sprintf("ToZ(%#x,%#x) reports not ok for 32-bit ordinates", x, y))
		return
	}
	if want := refInterleave(x, y); uint64(z) != want {
		fail("wrong-key", fmt.Sprintf("ToZ(%#x,%#x) = %#x, bit-by-bit interleave gives %#x", x, y, z, want))
		return
	}
	if gx, gy := morton.FromZ(z); uint64(gx) != x || uint64(gy) != y {
		fail("decode-mismatch", fmt.Sprintf("FromZ(ToZ(%#x,%#x)) = (%#x,%#x)", x, y, gx, gy))
	}
	if pz, _ := morton.ToZ(uint(x>>1), uint(y>>1)); pz != z>>2 {
		fail("parent-key", fmt.Sprintf("ToZ(%#x>>1,%#x>>1) = %#x but ToZ>>2 = %#x", x, y, pz, z>>2))
	}
	func() {
		defer func() {
			if r := recover(); r != nil {
				fail("MustToZ-panics", fmt.Sprintf("MustToZ(%#x,%#x) panicked: %v", x, y, r))
			}
		}()
		if mz := morton.MustToZ(uint(x), uint(y)); mz != z {
			fail("MustToZ-differs", fmt.Sprintf("MustToZ(%#x,%#x) = %#x, ToZ = %#x", x, y, mz, z))
		}
	}()
	if seen != nil {
		if prev, dup := seen[uint64(z)]; dup && prev != [2]uint64{x, y} {
			fail("key-collision", fmt.Sprintf("ToZ(%#x,%#x) = ToZ(%#x,%#x) = %#x", x, y, prev[0], prev[1], z))
		}
		seen[uint64(z)] = [2]uint64{x, y}
	}
}

// IndexKeyCase: the keys as the point index uses them. Pixels are inserted by address (InsertCoord), then a segment that
// stays inside one pixel is looked up at some levels. The expected answer follows from the addresses alone: at level l the
// look-up returns the centre of the query pixel's ancestor iff an inserted pixel has the same ancestor at l, and nothing else.
// Aliased, non-unique or non-hierarchical keys show as a missing or a foreign centre. An address that needs more than 32
// bits must be reported (panic or error from InsertCoord); if it is accepted silently the same look-ups must still be right.
type IndexKeyCase struct {
	TMS     grid.Spec   `json:"tms"`
	Deepest int         `json:"deepest"`
	Insert  [][2]uint64 `json:"insert"` // pixel addresses at the deepest level
	Query   [2]uint64   `json:"query"`  // pixel that holds the query segment
	Levels  []uint      `json:"levels"`
}

var c17IndexSets = []grid.Spec{
	{Name: "WebMercatorQuad"}, {Name: "WorldMercatorWGS84Quad"}, {Name: "NetherlandsRDNewQuad"},
	dy(24, 0.015625, 0), dy(28, 0.015625, 0), dy(30, 0.015625, -16777216), dy(32, 0.015625, 0), dy(32, 0.015625, -33554432),
}

func genIndexKeyCase(rng *fw.Rng, wide bool) *IndexKeyCase {
	for {
		spec := fw.Pick(rng, c17IndexSets)
		gs, err := getSet(spec)
		if err != nil {
			continue
		}
		maxID := gs.IDs[len(gs.IDs)-1]
		var deepest int
		if wide {
			deepest = maxID - rng.Intn(4)
		} else {
			deepest = maxID - rng.Intn(12)
		}
		if deepest < 0 {
			continue
		}
		L := gs.Level(deepest)
		if wide && L <= 32 || L > 40 || L < 8 {
			continue
		}
		kc := &IndexKeyCase{TMS: spec, Deepest: deepest}
		mask := uint64(1)<<L - 1
		rnd := func() uint64 {
			v := rng.Uint64() & mask
			switch rng.Intn(4) {
			case 0:
				v >>= uint(rng.Intn(int(L)))
			case 1:
				v &= rng.Uint64()
			}
			return v
		}
		a := [2]uint64{rnd(), rnd()}
		if !wide { // everything encodable
			a[0], a[1] = a[0]&math.MaxUint32, a[1]&math.MaxUint32
		}
		kc.Query = a
		lim := L
		if !wide && lim > 32 {
			lim = 32
		}
		flip := func(p [2]uint64) [2]uint64 { // differs from p in one or two (mostly high) bits
			q := p
			for k := 1 + rng.Intn(2); k > 0; k-- {
				bit := uint(rng.Intn(int(lim)))
				if rng.Chance(2, 3) {
					bit = lim - 1 - uint(rng.Intn(min(int(lim), 8)))
				}
				q[rng.Intn(2)] ^= 1 << bit
			}
			return q
		}
		if wide {
			// the address that does not fit, and the encodable address it would alias with if the high bits were dropped
			b := a
			ax := rng.Intn(2)
			b[ax] |= 1 << uint(32+rng.Intn(int(L-32)))
			if rng.Chance(1, 3) {
				b[1-ax] |= 1 << uint(32+rng.Intn(int(L-32)))
			}
			kc.Insert = append(kc.Insert, b)
			switch rng.Intn(3) {
			case 0:
				kc.Query = [2]uint64{b[0] & math.MaxUint32, b[1] & math.MaxUint32}
			case 1:
				kc.Query = b
			default:
				kc.Query = [2]uint64{b[0] & math.MaxUint32, b[1] & math.MaxUint32}
				kc.Insert = append(kc.Insert, flip(kc.Query))
			}
			if rng.Chance(2, 3) { // a close relative of the query pixel, so that the look-up descends to the deepest levels
				q := kc.Query
				q[rng.Intn(2)] ^= 1 << uint(rng.Intn(3))
				kc.Insert = append(kc.Insert, q)
			}
		} else {
			if rng.Chance(2, 3) {
				kc.Insert = append(kc.Insert, a)
			}
			for k := rng.Intn(5); k > 0; k-- {
				kc.Insert = append(kc.Insert, flip(a))
			}
			if rng.Chance(1, 4) {
				kc.Insert = append(kc.Insert, [2]uint64{rnd() & math.MaxUint32, rnd() & math.MaxUint32})
			}
			if len(kc.Insert) == 0 {
				kc.Insert = append(kc.Insert, flip(a))
			}
		}
		kc.Levels = []uint{L}
		for k := rng.Intn(4); k > 0; k-- {
			kc.Levels = append(kc.Levels, uint(rng.Intn(int(L)+1)))
		}
		return kc
	}
}

func judgeIndexKeys(c *fw.Ctx, kc *IndexKeyCase) {
	cj, _ := json.Marshal(kc)
	c.Rec.SetCurrent(cj)
	c.Rec.Eval()
	gs, err := getSet(kc.TMS)
	if err != nil {
		c.Rec.Note(err.Error())
		return
	}
	L := gs.Level(kc.Deepest)
	res := gs.Span / (int64(1) << L)
	if res < 64 {
		c.Rec.Count("skip:pixel_too_small")
		return
	}
	inGrid := func(p [2]uint64) bool { return p[0] < 1<<L && p[1] < 1<<L }
	if !inGrid(kc.Query) {
		c.Rec.Note("query outside grid")
		return
	}
	// query segment inside the query pixel, checked with the tool's own float -> integer conversion
	cx, cy := gs.OX+int64(kc.Query[0])*res+res/2, gs.OY+int64(kc.Query[1])*res+res/2
	fa := [2]float64{float64(cx) / 1e10, float64(cy) / 1e10}
	fb := [2]float64{float64(cx+res/8) / 1e10, float64(cy+res/8) / 1e10}
	for _, f := range [][2]float64{fa, fb} {
		ip := grid.FromFloatPoint(f)
		if ip[0] < cx-res/4 || ip[0] > cx+res/4 || ip[1] < cy-res/4 || ip[1] > cy+res/4 {
			c.Rec.Count("skip:no_float_inside_pixel")
			return
		}
	}
	wide := false
	for _, p := range kc.Insert {
		if p[0] > math.MaxUint32 || p[1] > math.MaxUint32 {
			wide = true
		}
	}
	var ix *pointindex.PointIndex
	reported := ""
	func() {
		defer func() {
			if r := recover(); r != nil {
				reported = fmt.Sprint("panic: ", r)
			}
		}()
		var e error
		ix, e = pointindex.FromTileMatrixSet(gs.TMS, kc.Deepest)
		if e != nil {
			reported = "error: " + e.Error()
			return
		}
		for _, p := range kc.Insert {
			if !inGrid(p) {
				continue
			}
			if e := ix.InsertCoord(int(p[0]), int(p[1])); e != nil {
				reported = "error: " + e.Error()
				return
			}
		}
	}()
	if reported != "" {
		if wide {
			c.Rec.Count("index:unencodable_address_reported")
			c.Rec.NonTrivial(fw.Hash64(cj))
			return
		}
		c.Rec.Violation("index-rejects-encodable-address", "", "inserting pixel addresses that fit in 32 bits: "+reported, cj, nil)
		return
	}
	levelMap := map[pointindex.Level]any{}
	for _, l := range kc.Levels {
		levelMap[l] = struct{}{}
	}
	var got map[pointindex.Level][][2]float64
	func() {
		defer func() {
			if r := recover(); r != nil {
				reported = fmt.Sprint("panic: ", r)
			}
		}()
		got = ix.SnapClosestPoints(geom.Line{fa, fb}, levelMap, 0)
	}()
	if reported != "" {
		if wide {
			c.Rec.Count("index:unencodable_address_reported")
			c.Rec.NonTrivial(fw.Hash64(cj))
			return
		}
		c.Rec.Violation("index-lookup-panics", "", reported, cj, nil)
		return
	}
	for _, l := range kc.Levels {
		sh := L - l
		qa := [2]uint64{kc.Query[0] >> sh, kc.Query[1] >> sh}
		present := false
		for _, p := range kc.Insert {
			if inGrid(p) && p[0]>>sh == qa[0] && p[1]>>sh == qa[1] {
				present = true
			}
		}
		span := res << sh
		var bad string
		switch pts := got[l]; {
		case present && len(pts) != 1:
			bad = fmt.Sprintf("level %d: expected exactly the centre of pixel (%d,%d), got %v", l, qa[0], qa[1], pts)
		case !present && len(pts) != 0:
			bad = fmt.Sprintf("level %d: no inserted pixel lies under (%d,%d), yet the look-up returned %v", l, qa[0], qa[1], pts)
		case present:
			ip := grid.FromFloatPoint(pts[0])
			wx, wy := gs.OX+int64(qa[0])*span, gs.OY+int64(qa[1])*span
			if ip[0] < wx || ip[0] >= wx+span || ip[1] < wy || ip[1] >= wy+span {
				bad = fmt.Sprintf("level %d: returned centre %v lies outside pixel (%d,%d)", l, pts[0], qa[0], qa[1])
			}
		}
		if bad != "" {
			class := "index-keys-not-unique-or-not-hierarchical"
			if wide {
				class = "unencodable-address-silently-aliased"
			}
			c.Rec.Violation(class, "", bad, cj, map[string]any{"inserted": kc.Insert, "query_pixel": kc.Query, "deepest_level": L})
			return
		}
	}
	if wide {
		c.Rec.Count("index:unencodable_address_accepted_without_aliasing")
	} else {
		c.Rec.Count("index:lookups_correct")
		if L > 32 {
			c.Rec.Count("index:level_above_32_low_addresses")
		}
	}
	c.Rec.NonTrivial(fw.Hash64(cj))
}

const c17FixedBatches = 10

var c17DecodeFirst sync.Once

func indexKeyBatch(c *fw.Ctx, wide bool) {
	n := 3000
	for i := 0; i < n; i++ {
		kc := genIndexKeyCase(c.Rng, wide)
		judgeIndexKeys(c, kc)
		if i == 0 && c.Rec.WantSample() {
			c.Rec.Sample(map[string]any{"index_key_case": kc})
		}
	}
	if wide {
		c.Rec.Add("index_key_cases_above_32_bits", int64(n))
	} else {
		c.Rec.Add("index_key_cases_encodable", int64(n))
	}
}

func init() {
	fw.Register(&fw.Prop{
		ID: "C17", Cases: tierN(c17FixedBatches+200, c17FixedBatches+5000),
		Run: func(c *fw.Ctx) {
			// history: the first morton call of this process is a decode of keys made by the reference, not by ToZ
			// (a decoder must not depend on an encoder having run before it)
			c17DecodeFirst.Do(func() {
				rng := fw.NewRng(uint64(c.Seed)*977 + uint64(c.Idx))
				for i := 0; i < 20000; i++ {
					x, y := rng.Uint64()>>32, rng.Uint64()>>32
					if i < 64 {
						x, y = uint64(1)<<uint(i%32), uint64(1)<<uint((i/2)%32)
					}
					z := refInterleave(x, y)
					c.Rec.Eval()
					if gx, gy := morton.FromZ(morton.Z(z)); uint64(gx) != x || uint64(gy) != y {
						cj, _ := json.Marshal(map[string]any{"decode_first": true, "x": x, "y": y})
						c.Rec.Violation("decode-before-any-encode", "", fmt.Sprintf("first morton call of the process: FromZ(%#x) = (%#x,%#x), the key was interleaved from (%#x,%#x)", z, gx, gy, x, y), cj, nil)
						break
					}
				}
				c.Rec.Add("decodes_before_any_encode_in_a_fresh_process", 20000)
			})
			seen := map[uint64][2]uint64{}
			switch c.Idx {
			case 0: // all (x,y) with at most two bits set in total, over 64-bit positions 0..33 (exhaustive)
				var pats []uint64
				pats = append(pats, 0)
				for i := uint(0); i < 34; i++ {
					pats = append(pats, 1<<i)
				}
				n := 0
				for _, a := range pats {
					for _, b := range pats {
						checkPair(c, a, b, seen) // one bit in x, one in y (or none)
						n++
					}
				}
				for i := uint(0); i < 34; i++ {
					for j := i + 1; j < 34; j++ {
						checkPair(c, 1<<i|1<<j, 0, seen)
						checkPair(c, 0, 1<<i|1<<j, seen)
						n += 2
					}
				}
				c.Rec.Add("exh:two_bit_patterns", int64(n))
				c.Rec.NonTrivial(fw.Hash64([]byte("two-bit")))
			case 1, 2, 3: // all 2^16 pairs of 8-bit values shifted to positions 0, 12, 24
				sh := []uint{0, 12, 24}[c.Idx-1]
				for x := uint64(0); x < 256; x++ {
					for y := uint64(0); y < 256; y++ {
						checkPair(c, x<<sh, y<<sh, seen)
					}
				}
				c.Rec.Add(fmt.Sprintf("exh:8bit_pairs_shift_%d", sh), 65536)
				c.Rec.NonTrivial(fw.Hash64([]byte(fmt.Sprintf("8bit-%d", sh))))
			case 4: // boundary values, all pairs
				var vs []uint64
				for k := uint(0); k <= 32; k++ {
					vs = append(vs, 1<<k, 1<<k-1, 1<<k+1)
				}
				vs = append(vs, math.MaxUint32, math.MaxUint32-1, math.MaxUint32+1, 1<<40, math.MaxUint64, 1<<63)
				for _, x := range vs {
					for _, y := range vs {
						checkPair(c, x, y, seen)
					}
				}
				c.Rec.Add("boundary_pairs", int64(len(vs)*len(vs)))
				c.Rec.NonTrivial(fw.Hash64([]byte("boundary")))
			case 5: // addresses that do not fit
				for i := 0; i < 100000; i++ {
					x, y := c.Rng.Uint64()>>uint(c.Rng.Intn(40)), c.Rng.Uint64()>>uint(c.Rng.Intn(40))
					if x <= math.MaxUint32 && y <= math.MaxUint32 {
						x |= 1 << uint(32+c.Rng.Intn(32))
					}
					checkPair(c, x, y, nil)
				}
				c.Rec.Add("unencodable_pairs", 100000)
				c.Rec.NonTrivial(fw.Hash64([]byte("unencodable")))
			case 6: // bit-linearity on random operands: ToZ(a|b, c|d) == ToZ(a,c)|ToZ(b,d)
				for i := 0; i < 100000; i++ {
					a, b, cc, d := c.Rng.Uint64()>>32, c.Rng.Uint64()>>32, c.Rng.Uint64()>>32, c.Rng.Uint64()>>32
					z1, _ := morton.ToZ(uint(a|b), uint(cc|d))
					z2, _ := morton.ToZ(uint(a), uint(cc))
					z3, _ := morton.ToZ(uint(b), uint(d))
					c.Rec.Eval()
					if z1 != z2|z3 {
						cj, _ := json.Marshal(map[string]uint64{"a": a, "b": b, "c": cc, "d": d})
						c.Rec.Violation("not-bit-linear", "", fmt.Sprintf("ToZ(%#x|%#x,%#x|%#x) != ToZ(a,c)|ToZ(b,d)", a, b, cc, d), cj, nil)
					}
				}
				c.Rec.Add("linearity_checks", 100000)
				c.Rec.NonTrivial(fw.Hash64([]byte("linearity")))
			case 8, 9: // the keys as the point index uses them (8: encodable addresses; 9: addresses above 32 bits on levels 33-36)
				indexKeyBatch(c, c.Idx == 9)
			case 7: // addresses as texel uses them: levels 26..32, children/parent chains
				for i := 0; i < 20000; i++ {
					lvl := uint(20 + c.Rng.Intn(13))
					x, y := c.Rng.Uint64()&(1<<lvl-1), c.Rng.Uint64()&(1<<lvl-1)
					for l := lvl; ; l-- {
						checkPair(c, x, y, nil)
						if l == 0 {
							break
						}
						x, y = x>>1, y>>1
					}
				}
				c.Rec.Add("quadtree_chains", 20000)
				c.Rec.NonTrivial(fw.Hash64([]byte("chains")))
			default: // random 32-bit pairs with random bit densities; injectivity within the batch
				if c.Idx%4 == 0 { // every fourth batch: the keys as the point index uses them
					indexKeyBatch(c, c.Idx%8 == 0)
					break
				}
				for i := 0; i < 100000; i++ {
					x, y := c.Rng.Uint64()>>32, c.Rng.Uint64()>>32
					switch c.Rng.Intn(4) {
					case 0:
						x &= c.Rng.Uint64() >> 32
						y &= c.Rng.Uint64() >> 32
					case 1:
						x |= c.Rng.Uint64() >> 32
						y |= c.Rng.Uint64() >> 32
					case 2:
						x >>= uint(c.Rng.Intn(32))
						y >>= uint(c.Rng.Intn(32))
					}
					checkPair(c, x, y, seen)
				}
				c.Rec.Add("random_pairs", 100000)
				c.Rec.NonTrivial(fw.Hash64([]byte(fmt.Sprintf("random-%d", c.Idx))))
			}
			if c.Rec.WantSample() && c.Idx >= c17FixedBatches {
				x, y := c.Rng.Uint64()>>32, c.Rng.Uint64()>>32
				z, ok := morton.ToZ(uint(x), uint(y))
				c.Rec.Sample(map[string]any{"x": x, "y": y, "ToZ": z, "ok": ok, "reference": refInterleave(x, y)})
			}
		},
		Replay: func(c *fw.Ctx, raw json.RawMessage) {
			var df struct {
				DecodeFirst bool `json:"decode_first"`
				X, Y        uint64
			}
			if json.Unmarshal(raw, &df) == nil && df.DecodeFirst {
				c.Rec.Eval()
				z := refInterleave(df.X, df.Y)
				if gx, gy := morton.FromZ(morton.Z(z)); uint64(gx) != df.X || uint64(gy) != df.Y {
					c.Rec.Violation("decode-before-any-encode", "", fmt.Sprintf("FromZ(%#x) = (%#x,%#x), the key was interleaved from (%#x,%#x) (no encode has run in this process)", z, gx, gy, df.X, df.Y), raw, nil)
				}
				return
			}
			var probe struct {
				Insert [][2]uint64 `json:"insert"`
			}
			if json.Unmarshal(raw, &probe) == nil && probe.Insert != nil {
				var kc IndexKeyCase
				if err := json.Unmarshal(raw, &kc); err != nil {
					c.Rec.Note(err.Error())
					return
				}
				judgeIndexKeys(c, &kc)
				return
			}
			var mc mortonCase
			if err := json.Unmarshal(raw, &mc); err != nil {
				c.Rec.Note(err.Error())
				return
			}
			checkPair(c, mc.X, mc.Y, nil)
		},
		Rule: "ToZ/FromZ/MustToZ against a bit-by-bit reference interleave: equality with the (injective) reference, decode round trip, parent key = key >> 2, ok flag and MustToZ panic for ordinates above 32 bits; exhaustive: all pairs with at most 2 bits set (positions 0..33), all 2^16 pairs of 8-bit values at shifts 0/12/24; plus boundary values, bit-linearity, quadtree parent chains at levels 20-32, random pairs (injectivity also checked by a hash set per batch); every worker process starts with 20 000 decodes (FromZ) of reference-made keys before its first encode; and the keys as the point index uses them: pixels inserted by address (InsertCoord) on built-in and synthetic sets with deepest levels 8-36, a segment inside one pixel looked up at several levels must return exactly the ancestor centres that the addresses predict (inserted pixels differ from the query pixel in one or two mostly high bits), and an address above 32 bits (levels 33-36) must be reported by panic/error or, if accepted, must not alias the address with the high bits dropped; evaluations = pairs; non-trivial = pair with both ordinates > 255, counted on a 1/256 hash sample of the pairs (conservative undercount) plus one entry per batch",
		Required: func(string) []string {
			return []string{"exh:two_bit_patterns", "exh:8bit_pairs_shift_0", "exh:8bit_pairs_shift_12", "exh:8bit_pairs_shift_24", "boundary_pairs", "unencodable_pairs", "random_pairs", "quadtree_chains", "index:lookups_correct", "index:level_above_32_low_addresses", "index:unencodable_address_reported", "decodes_before_any_encode_in_a_fresh_process"}
		},
		MinNonTriv:  8,
		Exhaustive:  map[string]string{"exh:two_bit_patterns": "all (x,y) with at most two bits set in total, bit positions 0..33", "exh:8bit_pairs_shift_0": "all 2^16 pairs of 8-bit values", "exh:8bit_pairs_shift_12": "all 2^16 pairs of 8-bit values shifted left by 12", "exh:8bit_pairs_shift_24": "all 2^16 pairs of 8-bit values shifted left by 24"},
		Assumptions: []string{"2^64 pairs cannot be enumerated: sampled, plus all one- and two-bit patterns (diagnostic for a shift/mask network because it is bit-linear, which is itself checked on random operands)"},
		Technique:   "runtime monitor: reference-model comparison of the Morton codec",
		FlushEvery:  50,
	})
}
