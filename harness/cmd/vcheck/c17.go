package main

import (
	"encoding/json"
	"fmt"
	"math"

	"verifharness/fw"

	"github.com/pdok/texel/morton"
)

// refInterleave: bit-by-bit reference of the Z-order key (x on even bits, y on odd bits).
func refInterleave(x, y uint64) uint64 {
	var z uint64
	for i := uint(0); i < 32; i++ {
		z |= (x >> i & 1) << (2 * i)
		z |= (y >> i & 1) << (2*i + 1)
	}
	return z
}

type mortonCase struct {
	X, Y uint64
}

func checkPair(c *fw.Ctx, x, y uint64, seen map[uint64][2]uint64) {
	c.Rec.Eval()
	if x > 255 && y > 255 { // non-trivial pair; registered when its hash falls in a 1/256 sample (conservative undercount)
		if h := fw.Hash64([]byte(fmt.Sprintf("%x,%x", x, y))); h&0xff == 0 {
			c.Rec.NonTrivial(h)
		}
	}
	fail := func(class, msg string) {
		cj, _ := json.Marshal(mortonCase{x, y})
		c.Rec.Violation(class, "", msg, cj, nil)
	}
	fits := x <= math.MaxUint32 && y <= math.MaxUint32
	z, ok := morton.ToZ(uint(x), uint(y))
	if !fits {
		if ok {
			fail("unencodable-address-accepted", fmt.Sprintf("ToZ(%#x,%#x) reports ok although an ordinate needs more than 32 bits", x, y))
		}
		func() {
			defer func() {
				if recover() == nil {
					fail("MustToZ-does-not-panic", fmt.Sprintf("MustToZ(%#x,%#x) returned normally although an ordinate needs more than 32 bits", x, y))
				}
			}()
			morton.MustToZ(uint(x), uint(y))
		}()
		return
	}
	if !ok {
		fail("encodable-address-rejected", fmt.Sprintf("ToZ(%#x,%#x) reports not ok for 32-bit ordinates", x, y))
		return
	}
	if want := refInterleave(x, y); uint64(z) != want {
		fail("wrong-key", fmt.Sprintf("ToZ(%#x,%#x) = %#x, bit-by-bit interleave gives %#x", x, y, z, want))
		return
	}
	if gx, gy := morton.FromZ(z); uint64(gx) != x || uint64(gy) != y {
		fail("decode-mismatch", fmt.Sprintf("FromZ(ToZ(%#x,%#x)) = (%#x,%#x)", x, y, gx, gy))
	}
	if pz, _ := morton.ToZ(uint(x>>1), uint(y>>1)); pz != z>>2 {
		fail("parent-key", fmt.Sprintf("ToZ(%#x>>1,%#x>>1) = %#x but ToZ>>2 = %#x", x, y, pz, z>>2))
	}
	func() {
		defer func() {
			if r := recover(); r != nil {
				fail("MustToZ-panics", fmt.Sprintf("MustToZ(%#x,%#x) panicked: %v", x, y, r))
			}
		}()
		if mz := morton.MustToZ(uint(x), uint(y)); mz != z {
			fail("MustToZ-differs", fmt.Sprintf("MustToZ(%#x,%#x) = %#x, ToZ = %#x", x, y, mz, z))
		}
	}()
	if seen != nil {
		if prev, dup := seen[uint64(z)]; dup && prev != [2]uint64{x, y} {
			fail("key-collision", fmt.Sprintf("ToZ(%#x,%#x) = ToZ(%#x,%#x) = %#x", x, y, prev[0], prev[1], z))
		}
		seen[uint64(z)] = [2]uint64{x, y}
	}
}

const c17FixedBatches = 8

func init() {
	fw.Register(&fw.Prop{
		ID: "C17", Cases: tierN(c17FixedBatches+200, c17FixedBatches+5000),
		Run: func(c *fw.Ctx) {
			seen := map[uint64][2]uint64{}
			switch c.Idx {
			case 0: // all (x,y) with at most two bits set in total, over 64-bit positions 0..33 (exhaustive)
				var pats []uint64
				pats = append(pats, 0)
				for i := uint(0); i < 34; i++ {
					pats = append(pats, 1<<i)
				}
				n := 0
				for _, a := range pats {
					for _, b := range pats {
						checkPair(c, a, b, seen) // one bit in x, one in y (or none)
						n++
					}
				}
				for i := uint(0); i < 34; i++ {
					for j := i + 1; j < 34; j++ {
						checkPair(c, 1<<i|1<<j, 0, seen)
						checkPair(c, 0, 1<<i|1<<j, seen)
						n += 2
					}
				}
				c.Rec.Add("exh:two_bit_patterns", int64(n))
				c.Rec.NonTrivial(fw.Hash64([]byte("two-bit")))
			case 1, 2, 3: // all 2^16 pairs of 8-bit values shifted to positions 0, 12, 24
				sh := []uint{0, 12, 24}[c.Idx-1]
				for x := uint64(0); x < 256; x++ {
					for y := uint64(0); y < 256; y++ {
						checkPair(c, x<<sh, y<<sh, seen)
					}
				}
				c.Rec.Add(fmt.Sprintf("exh:8bit_pairs_shift_%d", sh), 65536)
				c.Rec.NonTrivial(fw.Hash64([]byte(fmt.Sprintf("8bit-%d", sh))))
			case 4: // boundary values, all pairs
				var vs []uint64
				for k := uint(0); k <= 32; k++ {
					vs = append(vs, 1<<k, 1<<k-1, 1<<k+1)
				}
				vs = append(vs, math.MaxUint32, math.MaxUint32-1, math.MaxUint32+1, 1<<40, math.MaxUint64, 1<<63)
				for _, x := range vs {
					for _, y := range vs {
						checkPair(c, x, y, seen)
					}
				}
				c.Rec.Add("boundary_pairs", int64(len(vs)*len(vs)))
				c.Rec.NonTrivial(fw.Hash64([]byte("boundary")))
			case 5: // addresses that do not fit
				for i := 0; i < 100000; i++ {
					x, y := c.Rng.Uint64()>>uint(c.Rng.Intn(40)), c.Rng.Uint64()>>uint(c.Rng.Intn(40))
					if x <= math.MaxUint32 && y <= math.MaxUint32 {
						x |= 1 << uint(32+c.Rng.Intn(32))
					}
					checkPair(c, x, y, nil)
				}
				c.Rec.Add("unencodable_pairs", 100000)
				c.Rec.NonTrivial(fw.Hash64([]byte("unencodable")))
			case 6: // bit-linearity on random operands: ToZ(a|b, c|d) == ToZ(a,c)|ToZ(b,d)
				for i := 0; i < 100000; i++ {
					a, b, cc, d := c.Rng.Uint64()>>32, c.Rng.Uint64()>>32, c.Rng.Uint64()>>32, c.Rng.Uint64()>>32
					z1, _ := morton.ToZ(uint(a|b), uint(cc|d))
					z2, _ := morton.ToZ(uint(a), uint(cc))
					z3, _ := morton.ToZ(uint(b), uint(d))
					c.Rec.Eval()
					if z1 != z2|z3 {
						cj, _ := json.Marshal(map[string]uint64{"a": a, "b": b, "c": cc, "d": d})
						c.Rec.Violation("not-bit-linear", "", fmt.Sprintf("ToZ(%#x|%#x,%#x|%#x) != ToZ(a,c)|ToZ(b,d)", a, b, cc, d), cj, nil)
					}
				}
				c.Rec.Add("linearity_checks", 100000)
				c.Rec.NonTrivial(fw.Hash64([]byte("linearity")))
			case 7: // addresses as texel uses them: levels 26..32, children/parent chains
				for i := 0; i < 20000; i++ {
					lvl := uint(20 + c.Rng.Intn(13))
					x, y := c.Rng.Uint64()&(1<<lvl-1), c.Rng.Uint64()&(1<<lvl-1)
					for l := lvl; ; l-- {
						checkPair(c, x, y, nil)
						if l == 0 {
							break
						}
						x, y = x>>1, y>>1
					}
				}
				c.Rec.Add("quadtree_chains", 20000)
				c.Rec.NonTrivial(fw.Hash64([]byte("chains")))
			default: // random 32-bit pairs with random bit densities; injectivity within the batch
				for i := 0; i < 100000; i++ {
					x, y := c.Rng.Uint64()>>32, c.Rng.Uint64()>>32
					switch c.Rng.Intn(4) {
					case 0:
						x &= c.Rng.Uint64() >> 32
						y &= c.Rng.Uint64() >> 32
					case 1:
						x |= c.Rng.Uint64() >> 32
						y |= c.Rng.Uint64() >> 32
					case 2:
						x >>= uint(c.Rng.Intn(32))
						y >>= uint(c.Rng.Intn(32))
					}
					checkPair(c, x, y, seen)
				}
				c.Rec.Add("random_pairs", 100000)
				c.Rec.NonTrivial(fw.Hash64([]byte(fmt.Sprintf("random-%d", c.Idx))))
			}
			if c.Rec.WantSample() && c.Idx >= c17FixedBatches {
				x, y := c.Rng.Uint64()>>32, c.Rng.Uint64()>>32
				z, ok := morton.ToZ(uint(x), uint(y))
				c.Rec.Sample(map[string]any{"x": x, "y": y, "ToZ": z, "ok": ok, "reference": refInterleave(x, y)})
			}
		},
		Replay: func(c *fw.Ctx, raw json.RawMessage) {
			var mc mortonCase
			if err := json.Unmarshal(raw, &mc); err != nil {
				c.Rec.Note(err.Error())
				return
			}
			checkPair(c, mc.X, mc.Y, nil)
		},
		Rule: "ToZ/FromZ/MustToZ against a bit-by-bit reference interleave: equality with the (injective) reference, decode round trip, parent key = key >> 2, ok flag and MustToZ panic for ordinates above 32 bits; exhaustive: all pairs with at most 2 bits set (positions 0..33), all 2^16 pairs of 8-bit values at shifts 0/12/24; plus boundary values, bit-linearity, quadtree parent chains at levels 20-32, random pairs (injectivity also checked by a hash set per batch); evaluations = pairs; non-trivial = pair with both ordinates > 255, counted on a 1/256 hash sample of the pairs (conservative undercount) plus one entry per batch",
		Required: func(string) []string {
			return []string{"exh:two_bit_patterns", "exh:8bit_pairs_shift_0", "exh:8bit_pairs_shift_12", "exh:8bit_pairs_shift_24", "boundary_pairs", "unencodable_pairs", "random_pairs", "quadtree_chains"}
		},
		MinNonTriv:  8,
		Exhaustive:  map[string]string{"exh:two_bit_patterns": "all (x,y) with at most two bits set in total, bit positions 0..33", "exh:8bit_pairs_shift_0": "all 2^16 pairs of 8-bit values", "exh:8bit_pairs_shift_12": "all 2^16 pairs of 8-bit values shifted left by 12", "exh:8bit_pairs_shift_24": "all 2^16 pairs of 8-bit values shifted left by 24"},
		Assumptions: []string{"2^64 pairs cannot be enumerated: sampled, plus all one- and two-bit patterns (diagnostic for a shift/mask network because it is bit-linear, which is itself checked on random operands)"},
		Technique:   "runtime monitor: reference-model comparison of the Morton codec",
		FlushEvery:  50,
	})
}
