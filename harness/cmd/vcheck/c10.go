package main

import (
	"encoding/json"
	"fmt"
	"os"
	"os/exec"
	"path/filepath"
	"strconv"
	"strings"

	"verifharness/fw"
)

func judgePipe(c *fw.Ctx, pc *PipeCase, prop string) {
	cj := pc.JSON()
	c.Rec.SetCurrent(cj)
	run := runPipeline(pc)
	c.Rec.Eval()
	c.Rec.Count("plan:" + pc.Plan)
	c.Rec.Count(fmt.Sprintf("gomaxprocs:%d", pc.GoMaxProcs))
	if len(pc.Targets) <= 5 {
		c.Rec.Count(fmt.Sprintf("targets:%d", len(pc.Targets)))
	} else {
		c.Rec.Count("targets:6-48")
	}
	if pc.StallMs > 0 {
		c.Rec.Count("long_running_table(source stalls >= 12 s)")
	}
	switch {
	case pc.NFeatures == 0:
		c.Rec.Count("stream:empty")
	case pc.NFeatures <= 2:
		c.Rec.Count("stream:1-2")
	case pc.NFeatures >= 200:
		c.Rec.Count("stream:200")
	}
	if pc.RealSnap {
		c.Rec.Count("real_SnapPolygon")
	}
	detail := func() map[string]any {
		evs := []string{}
		for i, e := range run.log.evs {
			if i > 400 {
				break
			}
			evs = append(evs, fmt.Sprintf("%d:%s/t%d/f%d", e.seq, e.stage, e.target, e.feat))
		}
		return map[string]any{"events": evs}
	}
	if run.pan != nil {
		c.Rec.Violation("pipeline-panics", "", fmt.Sprintf("ProcessFeatures panicked: %v", run.pan), cj, detail())
		return
	}
	fs, nExp := run.checkDelivery(pc)
	c.Rec.Add("features_expected_at_targets", int64(nExp))
	c.Rec.Add("events_logged", int64(len(run.log.evs)))
	emptyTargets := 0
	for _, t := range run.targets {
		if len(t.got) == 0 {
			emptyTargets++
		}
	}
	if emptyTargets > 0 && pc.NFeatures > 0 {
		c.Rec.Count("target_that_receives_nothing")
	}
	c.Rec.Distinct("interleaving_signatures", run.signature())
	c.Rec.Count("finished_last:" + run.lastFinisher())
	if prop == "C10" {
		for _, f := range fs {
			c.Rec.Violation(f[0], "", f[1], cj, detail())
		}
	}
	if prop == "C11" {
		// completion before return
		for z, done := range run.doneAtRet {
			if !done {
				c.Rec.Violation("returned-before-target-finished", "", fmt.Sprintf("ProcessFeatures returned while target %d had not finished handling its features (its final flush was still running)", z), cj, detail())
				break
			}
		}
		for _, f := range fs {
			switch f[0] {
			case "lost-feature", "duplicate", "reordered", "unexpected-feature":
				c.Rec.Violation(f[0], "", f[1], cj, detail())
			}
		}
		leaked, unsettled := settleGoroutines()
		if len(leaked) > 0 {
			c.Rec.Violation("goroutine-left-behind", "", fmt.Sprintf("%d goroutine(s) of the pipeline are still parked after ProcessFeatures returned:\n%s", len(leaked), strings.Join(leaked, "\n---\n")), cj, detail())
		}
		if len(unsettled) > 0 {
			c.Rec.Count("unsettled_goroutines(inconclusive)")
			c.Rec.Note("goroutines still running after settle loop: " + unsettled[0])
		}
		c.Rec.Count("goroutine_checks")
	}
	if nExp >= 3 && len(pc.Targets) >= 2 {
		c.Rec.NonTrivial(fw.Hash64(cj))
	}
	if c.Rec.WantSample() && pc.NFeatures > 2 && pc.NFeatures < 12 {
		evs := detail()["events"]
		c.Rec.Sample(map[string]any{"case": pc, "event_log": evs, "features_expected_at_targets": nExp})
	}
}

// raceReports parses the race detector's log files of a run: blocks, and those with a texel frame.
func raceReports(tmp string) (total int, texel []string) {
	files, _ := filepath.Glob(filepath.Join(tmp, "race*"))
	seen := map[string]bool{}
	for _, f := range files {
		b, err := os.ReadFile(f)
		if err != nil {
			continue
		}
		for _, blk := range strings.Split(string(b), "==================") {
			if !strings.Contains(blk, "WARNING: DATA RACE") {
				continue
			}
			total++
			if !strings.Contains(blk, "github.com/pdok/texel/") {
				continue
			}
			// dedupe by the function names of the two access stacks
			var key []string
			for _, l := range strings.Split(blk, "\n") {
				l = strings.TrimSpace(l)
				if strings.HasPrefix(l, "github.com/pdok/texel/") || strings.HasPrefix(l, "verifharness/") {
					if i := strings.Index(l, "("); i > 0 {
						l = l[:i]
					}
					key = append(key, l)
				}
			}
			k := strings.Join(key, ">")
			if !seen[k] {
				seen[k] = true
				texel = append(texel, strings.TrimSpace(blk))
			}
		}
	}
	return
}

// e2eRace: the race-built real binary on generated multi-table sources, through the cgo driver (C11 only).
func e2eRace(p *fw.ParentCtx) {
	vg, bin := os.Getenv("VERIF_VGPKG"), os.Getenv("VERIF_TEXEL_RACE_BIN")
	if vg == "" || bin == "" {
		p.Inconclusive = append(p.Inconclusive, "end-to-end part not run: cgo driver or race-built texel binary missing")
		return
	}
	n := 24
	if p.Tier == "thorough" {
		n = 300
	}
	const W = 8
	var cmds []*exec.Cmd
	for w := 0; w < W; w++ {
		dir := filepath.Join(p.Tmp, fmt.Sprintf("e2e_%d", w))
		_ = os.MkdirAll(dir, 0o755)
		cmd := exec.Command("timeout", "-s", "QUIT", "3000", vg, "cli-batch", strconv.FormatInt(p.Seed*1000+int64(w), 10), strconv.Itoa(n/W), dir)
		cmd.Env = append(os.Environ(), "VERIF_RUN_TMP="+p.Tmp)
		_ = cmd.Start()
		cmds = append(cmds, cmd)
	}
	runs, multi := int64(0), int64(0)
	for w, cmd := range cmds {
		if err := cmd.Wait(); err != nil {
			p.Inconclusive = append(p.Inconclusive, fmt.Sprintf("end-to-end batch %d failed: %v", w, err))
			continue
		}
		b, err := os.ReadFile(filepath.Join(p.Tmp, fmt.Sprintf("e2e_%d", w), "clibatch.json"))
		var res fw.Result
		if err != nil || json.Unmarshal(b, &res) != nil {
			continue
		}
		runs += res.Evaluations
		multi += res.Hist["ids:2"] + res.Hist["ids:3"]
	}
	p.Extra["e2e_race_binary_runs"] = runs
	p.Extra["e2e_race_binary_runs_with_2+_targets"] = multi
	if runs == 0 || multi == 0 {
		p.Inconclusive = append(p.Inconclusive, "end-to-end part observed no multi-target run of the race-built binary")
	}
}

func raceExtra(prop string) func(p *fw.ParentCtx) {
	return func(p *fw.ParentCtx) {
		if prop == "C11" {
			e2eRace(p)
		}
		raceBuilt := os.Getenv("VERIF_VCHECK_RACE") != "" && (prop == "C11" || p.Tier == "thorough")
		total, texel := raceReports(p.Tmp)
		p.Extra["race_detector_enabled"] = raceBuilt
		p.Extra["race_reports_total"] = total
		p.Extra["race_reports_with_texel_frame_deduplicated"] = len(texel)
		for i, blk := range texel {
			if i >= 3 {
				break
			}
			p.Merged.ViolCount["data-race"]++
			p.Merged.Violations = append(p.Merged.Violations, fw.Violation{Property: prop, Class: "data-race", Msg: "the race detector reported a data race with a texel frame:\n" + tailStr(blk, 2500), Case: json.RawMessage(`{"note":"race report; re-run the check to reproduce (schedule dependent)"}`)})
		}
		if prop == "C11" && !raceBuilt {
			p.Inconclusive = append(p.Inconclusive, "race-enabled worker binary not available")
		}
	}
}

func raceBin(prop string) func(tier string) string {
	return func(tier string) string {
		if prop == "C11" || tier == "thorough" {
			return os.Getenv("VERIF_VCHECK_RACE")
		}
		return ""
	}
}

func casesFor(prop string) func(string) int64 {
	if prop == "C11" {
		return tierN(5000, 100000)
	}
	return tierN(8000, 200000)
}

func init() {
	for _, prop := range []string{"C10", "C11"} {
		prop := prop
		p := &fw.Prop{
			ID: prop, Cases: casesFor(prop),
			Run: func(c *fw.Ctx) {
				pc := genPipeCase(c.Rng)
				if c.Idx == 0 { // one long-running table per run: the source stalls once for 12 s (thorough: 65 s)
					pc.NFeatures, pc.RealSnap, pc.StallMs = 8, false, 12000
					if c.Tier == "thorough" {
						pc.StallMs = 65000
					}
				}
				if c.Idx == 1 { // one long stream per run with a target that lags far behind and then catches up
					pc.NFeatures, pc.RealSnap, pc.BigMulti, pc.Plan, pc.LagMs = 150000, false, false, "fast", 1500
					if c.Tier == "thorough" {
						pc.NFeatures = 600000
					}
					c.Rec.Count("long_stream_with_lagging_target(150k+ features)")
				}
				judgePipe(c, pc, prop)
			},
			Replay: func(c *fw.Ctx, raw json.RawMessage) {
				var pc PipeCase
				if err := json.Unmarshal(raw, &pc); err != nil || len(pc.Targets) == 0 {
					c.Rec.Note("not a replayable pipeline case")
					return
				}
				judgePipe(c, &pc, prop)
			},
			Extra:      raceExtra(prop),
			WorkerBin:  raceBin(prop),
			MinNonTriv: 200,
			FlushEvery: 50,
			Watchdog:   func(t string) int { return 2400 },
		}
		if prop == "C10" {
			p.Rule = "processing.ProcessFeatures driven with a fake source (0-200 features: Point/LineString/MultiPoint/nil/Polygon/MultiPolygon, unique ids) and 1-5 (1 in 25 cases: 6-48) fake targets under 6 speed plans, one long-running table per run (the source stalls for 12 s, thorough 65 s) and GOMAXPROCS 1/2/4/16; polygon function = deterministic drop/keep-1/split-k per (feature, part, tile matrix), 10 % of the runs the real SnapPolygon; offline checker over what each target's channel delivered against the sequential model: exactly-once, no foreign feature, source order, geometry equality (Polygon vs MultiPolygon merge), TileMatrixID = target id, Columns() = the source feature's own slice; non-trivial = >= 2 targets and >= 3 expected deliveries; thorough tier runs under the race detector"
			p.Required = func(string) []string {
				return []string{"plan:slow-reader", "plan:slow-f", "plan:one-slow-target", "gomaxprocs:1", "gomaxprocs:16", "stream:empty", "stream:200", "real_SnapPolygon", "target_that_receives_nothing", "targets:1", "targets:5", "targets:6-48", "long_running_table(source stalls >= 12 s)", "long_stream_with_lagging_target(150k+ features)"}
			}
			p.Assumptions = []string{"schedules are sampled (delays at every stage boundary x GOMAXPROCS), not enumerated", "the polygon function never returns an empty list for a key (C05's contract)"}
			p.Technique = "runtime monitor: offline history checker (unique ids, sequential model) over fake targets' event logs"
		} else {
			p.FatalIsViolation = true
			p.Rule = "same pipelines as C10, every run under the Go race detector; observed: return of ProcessFeatures (a total deadlock is reported by the Go runtime and kills the worker = violation), per-target done flag set after a slow final flush, loss/duplication/reordering from the event log, goroutines with a texel frame still parked after return (state-based, not time-based), race reports with a texel frame (from the pipelines and from runs of the race-built real binary on generated multi-table GeoPackages, where main re-assigns target.Table right after return); non-trivial = >= 2 targets and >= 3 expected deliveries; distinct interleaving signatures are counted"
			p.Required = func(string) []string {
				return []string{"plan:slow-reader", "plan:slow-f", "plan:one-slow-target", "plan:all-slow-flush", "gomaxprocs:1", "gomaxprocs:16", "stream:empty", "stream:200", "goroutine_checks", "finished_last:target-flush", "targets:6-48", "long_running_table(source stalls >= 12 s)", "long_stream_with_lagging_target(150k+ features)"}
			}
			p.Assumptions = []string{"'always returns' = returned on every schedule produced; a wall-clock watchdog only makes the run inconclusive", "schedules are sampled, not enumerated; distinct interleaving signatures are reported"}
			p.Technique = "Go race detector + runtime monitor of completion order, goroutine leaks and runtime deadlock detection"
		}
		fw.Register(p)
	}
}
