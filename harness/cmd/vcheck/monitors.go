package main

import (
	"fmt"
	"math"
	"math/big"

	"verifharness/oracle"
)

type edgeK struct {
	a, b   PixKey
	pi, ri int
}

func outEdges(l *LevelObs) []edgeK {
	var edges []edgeK
	for pi, pg := range l.OutK {
		for ri, r := range pg {
			if len(r) < 2 {
				continue
			}
			n := len(r)
			if n == 2 {
				if r[0] != r[1] {
					edges = append(edges, edgeK{r[0], r[1], pi, ri})
				}
				continue
			}
			for j := range r {
				a, b := r[j], r[(j+1)%n]
				if a != b {
					edges = append(edges, edgeK{a, b, pi, ri})
				}
			}
		}
	}
	return edges
}

func (l *LevelObs) invented(a, b PixKey) bool {
	if a == b || l.Facts.Routed[[2]PixKey{a, b}] {
		return false
	}
	return !oracle.StraightRun(l.Facts.Chains, a, b)
}

func (l *LevelObs) anyInvented() bool {
	for _, e := range outEdges(l) {
		if l.invented(e.a, e.b) {
			return true
		}
	}
	return false
}

const sigF5 = "invented-edge-M3"

// monC01: no two boundary edges of the geometries returned for a tile matrix cross in their interiors.
func monC01(o *Obs) []finding {
	var fs []finding
	for _, z := range o.UIDs {
		l := o.Level(z)
		edges := outEdges(l)
		var known, other *finding
		for i := 0; i < len(edges); i++ {
			for j := i + 1; j < len(edges); j++ {
				e, f := edges[i], edges[j]
				if !oracle.ProperCross(P(e.a), P(e.b), P(f.a), P(f.b)) {
					continue
				}
				inv := l.invented(e.a, e.b) || l.invented(f.a, f.b)
				msg := fmt.Sprintf("tile matrix %d: output edges %v-%v (polygon %d ring %d) and %v-%v (polygon %d ring %d) cross properly (pixel indices); max multiplicity of the routed chain = %d; crossing pair contains an invented edge: %v",
					z, e.a, e.b, e.pi, e.ri, f.a, f.b, f.pi, f.ri, l.Facts.MaxMult, inv)
				if inv && l.Facts.MaxMult >= 3 {
					// KF-F5 is the behaviour of the pinned kmpDeduplicate; anything else that invents an edge is new
					if same, note := o.kmpAsPinned(); !same {
						if other == nil {
							other = &finding{"crossing", "", msg + "; NOT the known finding KF-F5: " + note, z}
						}
					} else if known == nil {
						known = &finding{"crossing", sigF5, msg, z}
					}
				} else if other == nil {
					other = &finding{"crossing", "", msg, z}
				}
			}
		}
		if other != nil {
			fs = append(fs, *other)
		} else if known != nil {
			fs = append(fs, *known)
		}
	}
	return fs
}

// monC02b: when nothing collapses the result is exactly the ring-by-ring concatenation of routed edges.
func monC02b(o *Obs) (fs []finding, checked int) {
	for _, z := range o.UIDs {
		l := o.Level(z)
		minLen := math.MaxInt
		for _, ch := range l.Facts.Chains {
			minLen = min(minLen, len(ch))
		}
		if l.Facts.MaxMult != 1 || minLen < 3 {
			continue
		}
		checked++
		ok := len(l.OutK) == 1 && len(l.OutK[0]) == len(l.Facts.Chains)
		if ok {
			for i := range l.Facts.Chains {
				w := append([]PixKey{}, l.Facts.Chains[i]...)
				if o.Case.Reverse {
					oracle.Reverse(w)
				}
				if !oracle.CyclicEq(w, l.OutK[0][i]) {
					ok = false
				}
			}
		}
		if !ok {
			fs = append(fs, finding{"non-collapsing-mismatch", "", fmt.Sprintf("tile matrix %d: nothing collapses (every pixel centre visited once, every chain >= 3 centres) but the result %v is not the routed chains %v", z, l.OutK, l.Facts.Chains), z})
		}
	}
	return
}

// monCentre: every returned coordinate is (within 64 integer units) a pixel centre of the integer grid.
func monCentre(o *Obs) []finding {
	var fs []finding
	for _, z := range o.UIDs {
		l := o.Level(z)
		if len(l.OffCentre) > 0 {
			fs = append(fs, finding{"not-a-pixel-centre", "", fmt.Sprintf("tile matrix %d: %s", z, l.OffCentre[0]), z})
		}
	}
	return fs
}

type c04stats struct{ samplesIn, samplesOut, edges int }

const sigMoat = "hole-on-self-cancelled-polygon"

// holeOnSelfCancelledPolygon: the known finding KF-MOAT. Some output polygon's shell is identical (up to start vertex and
// direction) to one of its own holes - an island whose zero-width moat collapsed: texel keeps one such shell/hole pair -
// and that polygon carries another hole that contains the location: the hole (a lake on the island) was attached to the
// self-cancelled island instead of to the surrounding polygon, which therefore covers it.
func holeOnSelfCancelledPolygon(outRings [][][]P, p P) bool {
	same := func(a, b []P) bool {
		if len(a) != len(b) || len(a) < 3 {
			return false
		}
		ka, kb := make([]PixKey, len(a)), make([]PixKey, len(b))
		for i := range a {
			ka[i], kb[i] = PixKey(a[i]), PixKey(b[i])
		}
		if oracle.CyclicEq(ka, kb) {
			return true
		}
		oracle.Reverse(kb)
		return oracle.CyclicEq(ka, kb)
	}
	for _, pg := range outRings {
		if len(pg) < 3 {
			continue
		}
		for i := 1; i < len(pg); i++ {
			if !same(pg[0], pg[i]) {
				continue
			}
			for j := 1; j < len(pg); j++ {
				if j != i && len(pg[j]) >= 3 && oracle.PointInRing(pg[j], p) > 0 {
					return true
				}
			}
		}
	}
	return false
}

// monC04: (a) vertices are centres of hot pixels, (b) edges stay within half a pixel of the input boundary,
// (c) far from the boundary, covered by output iff covered by input.
func monC04(o *Obs) (fs []finding, st map[int]c04stats) {
	st = map[int]c04stats{}
	var inEdges [][2]P
	for _, r := range o.Norm {
		for j := range r {
			inEdges = append(inEdges, [2]P{r[j], r[(j+1)%len(r)]})
		}
	}
	for _, z := range o.UIDs {
		l := o.Level(z)
		g := l.G
		pix := g.Pix
		sig := ""
		if l.Facts.MaxMult >= 3 && l.anyInvented() {
			if same, _ := o.kmpAsPinned(); same { // see monC01
				sig = sigF5
			}
		}
		var s c04stats
		toC := func(k PixKey) P { return g.Centre(k[0], k[1]) }
		// (a)
		bad := false
		for _, pg := range l.OutK {
			for _, r := range pg {
				for _, k := range r {
					if !l.Facts.Hot[k] && !bad {
						bad = true
						fs = append(fs, finding{"vertex-not-hot", sig, fmt.Sprintf("tile matrix %d: output vertex at pixel %v, which contains no input vertex", z, k), z})
					}
				}
			}
		}
		// (b)
		bad = false
		for _, e := range outEdges(l) {
			s.edges++
			if !bad && !oracle.EdgeWithinTube(toC(e.a), toC(e.b), inEdges, pix-pix/2) { // half a pixel, rounded up: for an odd pixel size the integer centre sits half a unit off the true centre
				bad = true
				fs = append(fs, finding{"edge-leaves-half-pixel-tube", sig, fmt.Sprintf("tile matrix %d: output edge %v-%v (pixel indices) has points farther than half a pixel (Chebyshev) from the input boundary", z, e.a, e.b), z})
			}
		}
		// (c)
		minx, miny, maxx, maxy := int64(math.MaxInt64), int64(math.MaxInt64), int64(math.MinInt64), int64(math.MinInt64)
		for _, p := range o.Norm[0] {
			minx, miny, maxx, maxy = min(minx, p[0]), min(miny, p[1]), max(maxx, p[0]), max(maxy, p[1])
		}
		outRings := make([][][]P, len(l.OutK))
		for i, pg := range l.OutK {
			for _, r := range pg {
				rr := make([]P, len(r))
				for j := range r {
					rr[j] = toC(r[j])
				}
				outRings[i] = append(outRings[i], rr)
			}
		}
		half := pix / 2
		// cap the sample lattice at ~40x40
		step := half
		for (maxx-minx+4*pix)/step > 40 || (maxy-miny+4*pix)/step > 40 {
			step *= 2
		}
		bad = false
		for sx := minx - 2*pix; sx <= maxx+2*pix && !bad; sx += step {
			for sy := miny - 2*pix; sy <= maxy+2*pix; sy += step {
				p := P{sx + 7, sy + 3} // a few units off the lattice: never on an edge of either geometry
				if !oracle.FarFromEdges(p, inEdges, pix) {
					continue
				}
				in := oracle.PointInRing(o.Norm[0], p) > 0
				for _, hr := range o.Norm[1:] {
					if oracle.PointInRing(hr, p) >= 0 {
						in = false
					}
				}
				cov := false
				for _, pg := range outRings {
					if len(pg) == 0 || len(pg[0]) < 3 || oracle.PointInRing(pg[0], p) <= 0 {
						continue
					}
					c := true
					for _, hr := range pg[1:] {
						if len(hr) >= 3 && oracle.PointInRing(hr, p) >= 0 {
							c = false
						}
					}
					if c {
						cov = true
					}
				}
				if in {
					s.samplesIn++
				} else {
					s.samplesOut++
				}
				if in != cov {
					bad = true
					sig := sig
					if sig == "" && !in && cov && holeOnSelfCancelledPolygon(outRings, p) {
						sig = sigMoat
					}
					fs = append(fs, finding{"coverage-differs", sig, fmt.Sprintf("tile matrix %d: location %v (integer units) is farther than one pixel from the input boundary; covered by input: %v, covered by output: %v", z, p, in, cov), z})
					break
				}
			}
		}
		st[z] = s
	}
	return
}

type c05stats struct {
	split, collapseLine, collapsePoint, zeroAreaRing int
}

// monC05 structure part (one call).
func monC05(o *Obs) (fs []finding, st c05stats) {
	c := o.Case
	for z, pgs := range o.Got {
		if !containsInt(c.IDs, z) {
			fs = append(fs, finding{"foreign-key", "", fmt.Sprintf("result has key %d which was not requested (%v)", z, c.IDs), -1})
			continue
		}
		if len(pgs) == 0 {
			fs = append(fs, finding{"empty-list", "", fmt.Sprintf("tile matrix %d is mapped to an empty list", z), z})
		}
	}
	for _, z := range o.UIDs {
		l := o.Level(z)
		if len(l.OutK) > 1 {
			st.split++
		}
		for pi, pg := range l.OutK {
			if len(pg) == 0 {
				fs = append(fs, finding{"polygon-without-rings", "", fmt.Sprintf("tile matrix %d polygon %d has no ring", z, pi), z})
			}
			for ri, r := range pg {
				if len(r) < 3 {
					if len(r) == 2 {
						st.collapseLine++
					} else {
						st.collapsePoint++
					}
					if !c.Keep {
						fs = append(fs, finding{"short-ring-without-keep", "", fmt.Sprintf("tile matrix %d polygon %d ring %d has %d vertices although keep-points-and-lines is off", z, pi, ri, len(r)), z})
					}
					if len(r) == 0 {
						fs = append(fs, finding{"empty-ring", "", fmt.Sprintf("tile matrix %d polygon %d ring %d is empty", z, pi, ri), z})
					}
					continue
				}
				a2 := oracle.Area2(oracle.KeysToP(r)).Sign()
				if a2 == 0 {
					st.zeroAreaRing++
					continue
				}
				wantPos := ri == 0
				if c.Reverse {
					wantPos = !wantPos
				}
				if (a2 > 0) != wantPos {
					fs = append(fs, finding{"orientation", "", fmt.Sprintf("tile matrix %d polygon %d ring %d (%v) has signed area sign %d; want positive=%v (reverse=%v)", z, pi, ri, r, a2, wantPos, c.Reverse), z})
				}
				if r[0] == r[len(r)-1] {
					fs = append(fs, finding{"closing-vertex-repeated", "", fmt.Sprintf("tile matrix %d polygon %d ring %d repeats its first vertex at the end: %v", z, pi, ri, r), z})
				}
				seen := map[PixKey]bool{}
				dup, consec := false, false
				for j, k := range r {
					if j > 0 && r[j-1] == k {
						consec = true
					}
					if seen[k] {
						dup = true
					}
					seen[k] = true
				}
				if consec {
					fs = append(fs, finding{"equal-consecutive-vertices", "", fmt.Sprintf("tile matrix %d polygon %d ring %d: %v", z, pi, ri, r), z})
				} else if dup && r[0] != r[len(r)-1] {
					fs = append(fs, finding{"vertex-visited-twice", "", fmt.Sprintf("tile matrix %d polygon %d ring %d visits a vertex twice: %v", z, pi, ri, r), z})
				}
			}
		}
	}
	return
}

// monC05rel: relation between the results without and with keep-points-and-lines.
func monC05rel(off, on *Obs) (fs []finding) {
	for z, pOff := range off.Got {
		pOn, ok := on.Got[z]
		if !ok {
			fs = append(fs, finding{"keep-drops-tile-matrix", "", fmt.Sprintf("tile matrix %d is present without keep-points-and-lines but absent with it", z), z})
			continue
		}
		if len(pOn) < len(pOff) {
			fs = append(fs, finding{"keep-prefix", "", fmt.Sprintf("tile matrix %d: %d polygons without keep, only %d with", z, len(pOff), len(pOn)), z})
			continue
		}
		for i := range pOff {
			if !polyEq(pOff[i], pOn[i]) {
				fs = append(fs, finding{"keep-prefix", "", fmt.Sprintf("tile matrix %d: polygon %d differs between keep off (%v) and keep on (%v)", z, i, pOff[i], pOn[i]), z})
				break
			}
		}
		for i := len(pOff); i < len(pOn); i++ {
			if len(pOn[i]) != 1 || len(pOn[i][0]) < 1 || len(pOn[i][0]) > 2 {
				fs = append(fs, finding{"keep-extra-not-collapsed-part", "", fmt.Sprintf("tile matrix %d: extra polygon %d with keep on is not a single one- or two-vertex ring: %v", z, i, pOn[i]), z})
				break
			}
		}
	}
	return
}

func polyEq(a, b [][][2]float64) bool {
	if len(a) != len(b) {
		return false
	}
	for i := range a {
		if len(a[i]) != len(b[i]) {
			return false
		}
		for j := range a[i] {
			if a[i][j] != b[i][j] {
				return false
			}
		}
	}
	return true
}

// monC18: for max multiplicity <= 2: no invented edges, holes in-or-on shell, signed area conserved.
func monC18(o *Obs) (fs []finding, checked, m2 int) {
	for _, z := range o.UIDs {
		l := o.Level(z)
		if l.Facts.MaxMult > 2 {
			continue
		}
		checked++
		if l.Facts.MaxMult == 2 {
			m2++
		}
		want := new(big.Int)
		for _, ch := range l.Facts.Chains {
			want.Add(want, oracle.Area2(oracle.KeysToP(ch)))
		}
		got := new(big.Int)
		for _, pg := range l.OutK {
			for _, r := range pg {
				got.Add(got, oracle.Area2(oracle.KeysToP(r)))
			}
		}
		if o.Case.Reverse {
			got.Neg(got)
		}
		if want.Cmp(got) != 0 {
			fs = append(fs, finding{"area-not-conserved", "", fmt.Sprintf("tile matrix %d (max multiplicity %d): doubled signed area of the routed boundary = %v pixel^2, of the returned geometry = %v", z, l.Facts.MaxMult, want, got), z})
		}
		for _, e := range outEdges(l) {
			if l.invented(e.a, e.b) {
				fs = append(fs, finding{"invented-edge", "", fmt.Sprintf("tile matrix %d (max multiplicity %d): output edge %v-%v is neither a routed edge nor a straight run of routed edges", z, l.Facts.MaxMult, e.a, e.b), z})
				break
			}
		}
	holes:
		for pi, pg := range l.OutK {
			if len(pg) < 2 || len(pg[0]) < 3 {
				continue
			}
			sh := oracle.KeysToP(pg[0])
			sh2 := make([]P, len(sh))
			for k := range sh {
				sh2[k] = P{2 * sh[k][0], 2 * sh[k][1]}
			}
			for hi, h := range pg[1:] {
				for j := range h {
					a, b := h[j], h[(j+1)%len(h)]
					if oracle.PointInRing(sh2, P{2 * a[0], 2 * a[1]}) < 0 || oracle.PointInRing(sh2, P{a[0] + b[0], a[1] + b[1]}) < 0 {
						fs = append(fs, finding{"hole-outside-shell", "", fmt.Sprintf("tile matrix %d polygon %d hole %d (%v) is not inside or on its shell %v", z, pi, hi+1, h, pg[0]), z})
						break holes
					}
				}
			}
		}
	}
	return
}
