package main

import (
	"encoding/json"
	"fmt"
	"hash/fnv"
	"os"
	"reflect"
	"runtime"
	"sort"
	"strings"
	"sync"
	"sync/atomic"
	"time"

	"verifharness/fw"
	"verifharness/grid"

	"github.com/go-spatial/geom"
	"github.com/pdok/texel/processing"
	"github.com/pdok/texel/snap"
)

// PipeCase: one run of processing.ProcessFeatures with fake source and targets. Everything is derived from Seed.
type PipeCase struct {
	Seed       uint64 `json:"seed"`
	NFeatures  int    `json:"n_features"`
	Targets    []int  `json:"targets"` // tile matrix ids
	GoMaxProcs int    `json:"gomaxprocs"`
	Plan       string `json:"speed_plan"`
	RealSnap   bool   `json:"real_snap"`
	StallMs    int    `json:"stall_ms,omitempty"`  // the source pauses this long once (a long-running table)
	BigMulti   bool   `json:"big_multi,omitempty"` // multipolygons with up to several hundred parts
	// LagMs > 0: a long stream in which one target stops reading for that long early on (everything the pipeline may buffer
	// piles up behind it), and the source pauses for LagMs+1000 ms after two thirds of the stream so that the target catches up
	LagMs int `json:"lag_ms,omitempty"`
}

func (pc *PipeCase) JSON() []byte { b, _ := json.Marshal(pc); return b }

type pfeat struct {
	id   int
	cols []interface{}
	g    geom.Geometry
}

func (f *pfeat) Columns() []interface{}  { return f.cols }
func (f *pfeat) Geometry() geom.Geometry { return f.g }

type pevent struct {
	seq    int64
	stage  string
	target int
	feat   int
}

type plog struct {
	mu  sync.Mutex
	seq int64
	evs []pevent
}

func (l *plog) add(stage string, target, feat int) {
	l.mu.Lock()
	l.seq++
	l.evs = append(l.evs, pevent{l.seq, stage, target, feat})
	l.mu.Unlock()
}

func mix(vals ...uint64) uint64 {
	h := fnv.New64a()
	var b [8]byte
	for _, v := range vals {
		for i := 0; i < 8; i++ {
			b[i] = byte(v >> (8 * i))
		}
		h.Write(b[:])
	}
	return h.Sum64()
}

func delay(us int) {
	if us <= 0 {
		return
	}
	if us < 5 {
		runtime.Gosched()
		return
	}
	time.Sleep(time.Duration(us) * time.Microsecond)
}

type psource struct {
	feats   []*pfeat
	log     *plog
	delay   func(i int) int
	stallMs int
	pauseAt int // index before which the source pauses pauseMs (0 = never)
	pauseMs int
}

func (s *psource) ReadFeatures(ch chan<- processing.Feature) {
	for i, f := range s.feats {
		if s.stallMs > 0 && i == min(2, len(s.feats)-1) {
			time.Sleep(time.Duration(s.stallMs) * time.Millisecond)
		}
		if s.pauseMs > 0 && i == s.pauseAt {
			time.Sleep(time.Duration(s.pauseMs) * time.Millisecond)
		}
		delay(s.delay(i))
		s.log.add("read", -1, f.id)
		ch <- f
	}
	close(ch)
}

type precv struct {
	feat    int
	geom    geom.Geometry
	colsPtr *interface{}
	cols    []interface{}
	tmid    int
	hasTMID bool
}

type ptarget struct {
	id         int
	log        *plog
	delay      func(i int) int
	flushDelay int
	blockAt    int // the target stops reading for blockMs when it has received this many features (blockMs 0 = never)
	blockMs    int
	got        []precv
	done       atomic.Bool
}

func (t *ptarget) WriteFeatures(ch <-chan processing.Feature) {
	i := 0
	for f := range ch {
		r := precv{feat: -1, geom: f.Geometry(), cols: f.Columns()}
		if len(r.cols) > 0 {
			r.colsPtr = &r.cols[0]
			if v, ok := r.cols[0].(int64); ok {
				r.feat = int(v)
			}
		}
		if ft, ok := f.(processing.FeatureForTileMatrix); ok {
			r.tmid, r.hasTMID = ft.TileMatrixID(), true
		}
		t.log.add("recv", t.id, r.feat)
		t.got = append(t.got, r)
		delay(t.delay(i))
		i++
		if t.blockMs > 0 && i == t.blockAt {
			time.Sleep(time.Duration(t.blockMs) * time.Millisecond)
		}
	}
	// the last page: the target keeps working after its channel is closed
	delay(t.flushDelay)
	t.log.add("done", t.id, -1)
	t.done.Store(true)
}

// the deterministic polygon function: decided by (case seed, feature, part, tile matrix)
func fakeDecision(seed uint64, feat, part, z int) int {
	switch r := mix(seed, uint64(feat), uint64(part), uint64(z)) % 10; {
	case r < 3:
		return 0 // drop
	case r < 7:
		return 1 // keep one
	default:
		return 2 + int(r%3) // split in 2..4
	}
}

func fakePolygon(feat, part int) geom.Polygon {
	return geom.Polygon{{{float64(feat), float64(part)}, {float64(feat) + 1, float64(part)}, {float64(feat) + 1, float64(part) + 1}}}
}

func fakeResultPolygon(feat, part, z, k int) geom.Polygon {
	return geom.Polygon{{{float64(feat), float64(part)}, {float64(z), float64(k)}, {float64(feat) + 0.5, float64(z) + 0.25}}}
}

func decodeFake(p geom.Polygon) (feat, part int) { return int(p[0][0][0]), int(p[0][0][1]) }

var pipeSet = grid.Spec{Depth: 4, Cell: 16, Origin: 0}

// buildPipeline materialises the features and the polygon function of a case.
func buildPipeline(pc *PipeCase) (feats []*pfeat, f func(p geom.Polygon, ids []int) map[int][]geom.Polygon, oracleF func(p geom.Polygon, ids []int) map[int][]geom.Polygon) {
	rng := fw.NewRng(pc.Seed)
	gs, _ := getSet(pipeSet)
	heavyDone := false
	for i := 0; i < pc.NFeatures; i++ {
		ft := &pfeat{id: i}
		ft.cols = []interface{}{int64(i), fmt.Sprintf("name-%d", i), float64(i) * 0.5, nil}
		k := rng.Intn(10)
		if pc.StallMs > 0 {
			k = 6 + i%3 // the long-running table holds non-polygon features only: whatever is re-processed shows at every target
		}
		switch {
		case k < 4:
			if pc.RealSnap {
				sc, _ := genSnapCase(rng, &Profile{Sets: []SetChoice{{Spec: pipeSet, Bases: []int{0}, Span: 5}}, Kinds: allKinds})
				if sc != nil {
					ft.g = sc.GeomPolygon()
				} else {
					ft.g = geom.Polygon{{{1, 1}, {9, 1}, {9, 9}}}
				}
			} else {
				ft.g = fakePolygon(i, 0)
			}
		case k < 6:
			var mp geom.MultiPolygon
			nParts := 1 + rng.Intn(4)
			if pc.BigMulti && !pc.RealSnap {
				nParts = fw.Pick(rng, []int{5, 8, 9, 16, 17, 31, 33, 63, 64, 65, 70, 100, 127, 129, 255, 257, 300}) + rng.Intn(3)
				if !heavyDone && rng.Chance(1, 3) { // heavy tail: one feature per case with thousands of parts
					heavyDone = true
					nParts = fw.Pick(rng, []int{511, 1023, 1024, 1025, 2049, 4096, 5000, 10000, 20011}) + rng.Intn(3)
					if pc.Plan == "slow-f" || pc.Plan == "jitter" { // the polygon function sleeps per part under these plans
						nParts = min(nParts, 1027)
					}
				}
			}
			for part := 0; part < nParts; part++ {
				if pc.RealSnap {
					sc, _ := genSnapCase(rng, &Profile{Sets: []SetChoice{{Spec: pipeSet, Bases: []int{0}, Span: 5}}, Kinds: allKinds})
					if sc != nil {
						mp = append(mp, sc.GeomPolygon())
						continue
					}
				}
				mp = append(mp, fakePolygon(i, part))
			}
			ft.g = mp
		case k < 7:
			ft.g = geom.Point{float64(i), 1}
		case k < 8:
			ft.g = geom.LineString{{float64(i), 0}, {float64(i), 5}}
		case k < 9:
			ft.g = geom.MultiPoint{{float64(i), 2}, {1, 2}}
		default:
			ft.g = nil
		}
		feats = append(feats, ft)
	}
	if pc.RealSnap {
		real := func(p geom.Polygon, ids []int) map[int][]geom.Polygon {
			return snap.SnapPolygon(p, gs.TMS, ids, snap.Config{KeepPointsAndLines: true, IgnoreOutsideGrid: true})
		}
		return feats, real, real
	}
	fake := func(p geom.Polygon, ids []int) map[int][]geom.Polygon {
		feat, part := decodeFake(p)
		out := map[int][]geom.Polygon{}
		for _, z := range ids {
			n := fakeDecision(pc.Seed, feat, part, z)
			for k := 0; k < n; k++ {
				out[z] = append(out[z], fakeResultPolygon(feat, part, z, k))
			}
		}
		return out
	}
	return feats, fake, fake
}

type pipeRun struct {
	log       *plog
	targets   map[int]*ptarget
	feats     []*pfeat
	returned  bool
	pan       any
	doneAtRet map[int]bool
	oracleF   func(p geom.Polygon, ids []int) map[int][]geom.Polygon
}

// runPipeline executes the case against the real processing.ProcessFeatures.
func runPipeline(pc *PipeCase) *pipeRun {
	feats, f, oracleF := buildPipeline(pc)
	rng := fw.NewRng(pc.Seed ^ 0xabcdef)
	lg := &plog{}
	run := &pipeRun{log: lg, targets: map[int]*ptarget{}, feats: feats, doneAtRet: map[int]bool{}, oracleF: oracleF}
	// speed plans
	rd, fd := 0, 0
	td := map[int]int{}
	flush := map[int]int{}
	for _, z := range pc.Targets {
		td[z], flush[z] = 0, rng.Intn(300)
	}
	last := pc.Targets[rng.Intn(len(pc.Targets))]
	switch pc.Plan {
	case "slow-reader":
		rd = 50 + rng.Intn(200)
	case "slow-f":
		fd = 50 + rng.Intn(200)
	case "one-slow-target":
		td[last], flush[last] = 100+rng.Intn(300), 2000+rng.Intn(3000)
	case "all-slow-flush":
		for _, z := range pc.Targets {
			flush[z] = 1000 + rng.Intn(4000)
		}
	case "jitter":
		rd, fd = 20, 20
		for _, z := range pc.Targets {
			td[z] = rng.Intn(100)
		}
	case "fast":
	}
	jit := func(base int, salt uint64) func(i int) int {
		return func(i int) int {
			if base == 0 {
				return 0
			}
			return int(mix(pc.Seed, salt, uint64(i)) % uint64(2*base+1))
		}
	}
	src := &psource{feats: feats, log: lg, delay: jit(rd, 1), stallMs: pc.StallMs}
	if pc.LagMs > 0 {
		src.pauseAt, src.pauseMs = len(feats)*2/3, pc.LagMs+1000
	}
	targets := map[int]processing.Target{}
	for _, z := range pc.Targets {
		t := &ptarget{id: z, log: lg, delay: jit(td[z], uint64(100+z)), flushDelay: flush[z]}
		if pc.LagMs > 0 && z == last {
			t.blockAt, t.blockMs = 10, pc.LagMs
		}
		run.targets[z] = t
		targets[z] = t
	}
	var fcalls atomic.Int64
	wrapped := func(p geom.Polygon, ids []int) map[int][]geom.Polygon {
		n := fcalls.Add(1)
		lg.add("f", -1, int(n))
		delay(jit(fd, 7)(int(n)))
		return f(p, ids)
	}
	prev := runtime.GOMAXPROCS(pc.GoMaxProcs)
	defer runtime.GOMAXPROCS(prev)
	done := make(chan struct{})
	go func() {
		defer close(done)
		defer func() { run.pan = recover() }()
		processing.ProcessFeatures(src, targets, wrapped)
		run.returned = true
	}()
	waitOrDeadlock(done, lg, pc)
	for z, t := range run.targets {
		run.doneAtRet[z] = t.done.Load()
	}
	lg.add("return", -1, -1)
	return run
}

// waitOrDeadlock waits for the pipeline. The Go runtime reports a total deadlock itself ("all goroutines are asleep"),
// but not in race-detector (cgo) builds. So the harness decides it from goroutine states, not from the clock of the
// workload: when the event log has not advanced for 3 s, it inspects all goroutines; if every goroutine that has a frame of
// the pipeline or of the fakes is parked on a channel / wait group / mutex (none running, runnable or sleeping) and that
// stays so, with no new event, for another 10 s, nothing can wake them up any more. The case file names the case;
// the process ends (its goroutines cannot be cleaned up) and the parent restarts the worker behind this case.
func waitOrDeadlock(done chan struct{}, lg *plog, pc *PipeCase) {
	lastSeq, lastChange := int64(-1), time.Now()
	var stuckSince time.Time
	for {
		select {
		case <-done:
			return
		case <-time.After(100 * time.Millisecond):
		}
		lg.mu.Lock()
		seq := lg.seq
		lg.mu.Unlock()
		if seq != lastSeq {
			lastSeq, lastChange, stuckSince = seq, time.Now(), time.Time{}
			continue
		}
		if time.Since(lastChange) < 3*time.Second {
			continue
		}
		parked, active, dump := pipelineGoroutineStates()
		if active > 0 || parked == 0 {
			stuckSince = time.Time{}
			continue
		}
		if stuckSince.IsZero() {
			stuckSince = time.Now()
			continue
		}
		if time.Since(stuckSince) > 10*time.Second {
			fmt.Fprintf(os.Stderr, "DEADLOCK: ProcessFeatures has not returned; no event for %.0f s and all %d goroutines of the pipeline and the fakes are parked on channel/lock operations (%d targets, %d features):\n%s\n",
				time.Since(lastChange).Seconds(), parked, len(pc.Targets), pc.NFeatures, dump)
			os.Exit(86)
		}
	}
}

// pipelineGoroutineStates: goroutines with a frame of texel's processing package or of the fakes, by state.
func pipelineGoroutineStates() (parked, active int, dump string) {
	buf := make([]byte, 4<<20)
	n := runtime.Stack(buf, true)
	var sb strings.Builder
	for _, g := range strings.Split(string(buf[:n]), "\n\n") {
		if !strings.Contains(g, "github.com/pdok/texel/processing") && !strings.Contains(g, "vcheck.(*psource)") && !strings.Contains(g, "vcheck.(*ptarget)") {
			continue
		}
		if strings.Contains(g, "vcheck.waitOrDeadlock") {
			continue
		}
		head := g
		if i := strings.IndexByte(g, '\n'); i > 0 {
			head = g[:i]
		}
		if strings.Contains(head, "chan send") || strings.Contains(head, "chan receive") || strings.Contains(head, "semacquire") || strings.Contains(head, "sync.WaitGroup") || strings.Contains(head, "sync.Mutex") || strings.Contains(head, "sync.Cond") || (strings.Contains(head, "[select") && !strings.Contains(g, "time.")) {
			parked++
			if sb.Len() < 6000 {
				sb.WriteString(trimStack(g) + "\n\n")
			}
		} else {
			active++
		}
	}
	return parked, active, sb.String()
}

type expItem struct {
	feat int
	geom geom.Geometry
}

// expected: the sequential model of what target z must receive.
func (r *pipeRun) expected(z int, ids []int) []expItem {
	var out []expItem
	for _, ft := range r.feats {
		switch g := ft.g.(type) {
		case geom.Polygon:
			res := r.oracleF(g, []int{z})[z]
			switch len(res) {
			case 0:
			case 1:
				out = append(out, expItem{ft.id, res[0]})
			default:
				out = append(out, expItem{ft.id, geom.MultiPolygon(polysToMulti(res))})
			}
		case geom.MultiPolygon:
			var all geom.MultiPolygon
			for _, part := range g {
				for _, np := range r.oracleF(part, []int{z})[z] {
					all = append(all, np)
				}
			}
			if len(all) > 0 {
				out = append(out, expItem{ft.id, all})
			}
		default:
			out = append(out, expItem{ft.id, ft.g})
		}
	}
	return out
}

func polysToMulti(ps []geom.Polygon) [][][][2]float64 {
	out := make([][][][2]float64, len(ps))
	for i := range ps {
		out[i] = ps[i]
	}
	return out
}

func geomEq(a, b geom.Geometry) bool {
	if a == nil || b == nil {
		return a == nil && b == nil
	}
	return reflect.DeepEqual(a, b)
}

// checkDelivery: C10's oracle on one finished run. Returns findings as (class, message).
func (r *pipeRun) checkDelivery(pc *PipeCase) (fs [][2]string, nExpected int) {
	for _, z := range pc.Targets {
		t := r.targets[z]
		exp := r.expected(z, pc.Targets)
		nExpected += len(exp)
		seen := map[int]int{}
		for _, g := range t.got {
			seen[g.feat]++
		}
		expSet := map[int]bool{}
		for _, e := range exp {
			expSet[e.feat] = true
		}
		for id, n := range seen {
			switch {
			case !expSet[id]:
				fs = append(fs, [2]string{"unexpected-feature", fmt.Sprintf("target %d received feature %d, which the model does not send there (foreign id, or a polygon that produced nothing for this tile matrix)", z, id)})
			case n > 1:
				fs = append(fs, [2]string{"duplicate", fmt.Sprintf("target %d received feature %d %d times", z, id, n)})
			}
		}
		for _, e := range exp {
			if seen[e.feat] == 0 {
				fs = append(fs, [2]string{"lost-feature", fmt.Sprintf("target %d never received feature %d (of %d expected, %d received)", z, e.feat, len(exp), len(t.got))})
				break
			}
		}
		if len(fs) > 0 {
			continue
		}
		for i, e := range exp {
			g := t.got[i]
			switch {
			case g.feat != e.feat:
				fs = append(fs, [2]string{"reordered", fmt.Sprintf("target %d: position %d holds feature %d, source order demands %d", z, i, g.feat, e.feat)})
			case !geomEq(g.geom, e.geom):
				fs = append(fs, [2]string{"wrong-geometry", fmt.Sprintf("target %d feature %d: geometry %v, expected %v", z, e.feat, g.geom, e.geom)})
			case !g.hasTMID || g.tmid != z:
				fs = append(fs, [2]string{"wrong-tile-matrix-id", fmt.Sprintf("target %d feature %d: TileMatrixID()=%d (has=%v)", z, e.feat, g.tmid, g.hasTMID)})
			case len(g.cols) != 4 || g.colsPtr != &r.feats[e.feat].cols[0]:
				fs = append(fs, [2]string{"attributes-not-original", fmt.Sprintf("target %d feature %d: Columns() is not the source feature's own attribute slice: %v", z, e.feat, g.cols)})
			}
			if len(fs) > 0 {
				break
			}
		}
	}
	return
}

// interleaving signature: the event order projected on (stage, target)
func (r *pipeRun) signature() uint64 {
	h := fnv.New64a()
	for _, e := range r.log.evs {
		fmt.Fprintf(h, "%s%d|", e.stage, e.target)
	}
	return h.Sum64()
}

func (r *pipeRun) lastFinisher() string {
	for i := len(r.log.evs) - 1; i >= 0; i-- {
		e := r.log.evs[i]
		if e.stage == "return" {
			continue
		}
		if e.stage == "done" {
			return "target-flush"
		}
		return e.stage
	}
	return "none"
}

// texelGoroutines: goroutines with a processing./gpkg. frame, by state.
func texelGoroutines() (parked, other []string) {
	buf := make([]byte, 1<<20)
	n := runtime.Stack(buf, true)
	for _, g := range strings.Split(string(buf[:n]), "\n\n") {
		if !strings.Contains(g, "github.com/pdok/texel/processing") {
			continue
		}
		if strings.Contains(g, "verifharness/cmd/vcheck.runPipeline") && strings.Contains(g, "[running]") {
			continue
		}
		head := g
		if i := strings.IndexByte(g, '\n'); i > 0 {
			head = g[:i]
		}
		if strings.Contains(head, "chan send") || strings.Contains(head, "chan receive") || strings.Contains(head, "select") || strings.Contains(head, "semacquire") || strings.Contains(head, "sync.WaitGroup") || strings.Contains(head, "sync.Mutex") {
			parked = append(parked, trimStack(g))
		} else {
			other = append(other, trimStack(g))
		}
	}
	return
}

func trimStack(g string) string {
	lines := strings.Split(g, "\n")
	if len(lines) > 9 {
		lines = lines[:9]
	}
	return strings.Join(lines, "\n")
}

// settle waits until no texel goroutine is left or the remaining ones are parked for good.
func settleGoroutines() (leaked []string, unsettled []string) {
	for i := 0; i < 400; i++ {
		parked, other := texelGoroutines()
		if len(parked) == 0 && len(other) == 0 {
			return nil, nil
		}
		if len(other) == 0 && i >= 20 {
			// parked on a channel / wait group although the pipeline has returned; confirm it stays so
			time.Sleep(20 * time.Millisecond)
			p2, o2 := texelGoroutines()
			if len(o2) == 0 && len(p2) == len(parked) {
				return p2, nil
			}
		}
		for k := 0; k < 20; k++ {
			runtime.Gosched()
		}
		time.Sleep(time.Duration(1+i/10) * time.Millisecond)
	}
	_, other := texelGoroutines()
	return nil, other
}

var pipePlans = []string{"fast", "slow-reader", "slow-f", "one-slow-target", "all-slow-flush", "jitter"}

func genPipeCase(rng *fw.Rng) *PipeCase {
	pc := &PipeCase{Seed: rng.Uint64(), Plan: fw.Pick(rng, pipePlans), GoMaxProcs: fw.Pick(rng, []int{1, 2, 4, 16})}
	switch rng.Intn(8) {
	case 0:
		pc.NFeatures = rng.Intn(3)
	case 1:
		pc.NFeatures = 200
	default:
		pc.NFeatures = rng.Intn(60)
	}
	nt := 1 + rng.Intn(5)
	pool := 5
	if rng.Chance(1, 25) { // many targets (more than any built-in set has levels, more than 2x the CPUs of most machines)
		nt, pool = 6+rng.Intn(43), 64
	}
	perm := rng.Perm(pool)
	for i := 0; i < nt; i++ {
		pc.Targets = append(pc.Targets, perm[i])
	}
	sort.Ints(pc.Targets)
	pc.RealSnap = rng.Chance(1, 10) && pool == 5 // the real library only for ids that exist in the set used
	if pc.RealSnap && pc.NFeatures > 60 {
		pc.NFeatures = 60
	}
	if !pc.RealSnap {
		// tile matrix ids are plain ints: negative ones are legal (CDB1GlobalGrid numbers its levels -10..-1), and sets need not start at 0
		if rng.Chance(1, 8) {
			off := fw.Pick(rng, []int{-1, -3, -10, -64, 7, 100})
			for i := range pc.Targets {
				pc.Targets[i] += off
			}
		}
		pc.BigMulti = rng.Chance(1, 12)
		if pc.BigMulti && pc.NFeatures > 40 {
			pc.NFeatures = 40
		}
	}
	return pc
}
