// vcheck: pure-Go driver of the runtime monitors (built with -tags verif against /repo's working tree).
package main

import "verifharness/fw"

func main() { fw.Main() }
