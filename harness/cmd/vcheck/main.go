// vcheck: pure-Go driver of the runtime monitors (built with -tags verif against /repo's working tree).
package main

import (
	"os"

	"verifharness/fw"
)

func main() {
	if len(os.Args) > 1 && os.Args[1] == "c07-concurrent" {
		c07ConcurrentPass(os.Args[2:])
		return
	}
	if len(os.Args) > 1 && os.Args[1] == "c07-hash" {
		c07HashPass(os.Args[2:])
		return
	}
	fw.Main()
}
