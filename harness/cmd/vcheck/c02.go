package main

import (
	"encoding/json"
	"fmt"
	"math"
	"math/big"

	"verifharness/fw"
	"verifharness/grid"
	"verifharness/oracle"

	"github.com/go-spatial/geom"
	"github.com/pdok/texel/pointindex"
)

// SegCase: one call of PointIndex.SnapClosestPoints after inserting a set of points.
type SegCase struct {
	TMS     grid.Spec    `json:"tms"`
	Deepest int          `json:"deepest"`
	IDs     []int        `json:"ids"` // tile matrices compared
	A       [2]float64   `json:"a"`
	B       [2]float64   `json:"b"`
	Points  [][2]float64 `json:"points"` // inserted (A and B are inserted too)
}

func (c *SegCase) JSON() []byte { b, _ := json.Marshal(c); return b }

// tie classes of a segment w.r.t. a grid
func tieClasses(g oracle.Grid, a, b P, rec *fw.Recorder) {
	onV := func(p P) bool { return (p[0]-g.OX)%g.Pix == 0 }
	onH := func(p P) bool { return (p[1]-g.OY)%g.Pix == 0 }
	for _, p := range []P{a, b} {
		switch {
		case onV(p) && onH(p):
			rec.Count("tie:endpoint_on_corner")
		case onV(p):
			rec.Count("tie:endpoint_on_vertical_border")
		case onH(p):
			rec.Count("tie:endpoint_on_horizontal_border")
		}
	}
	if a[0] == b[0] && onV(a) {
		rec.Count("tie:edge_along_vertical_border")
	}
	if a[1] == b[1] && onH(a) {
		rec.Count("tie:edge_along_horizontal_border")
	}
	dx, dy := b[0]-a[0], b[1]-a[1]
	if dx != 0 && dy != 0 {
		f := g.RouteRings([][]P{{a, b}})
		if f.ThroughCorner {
			if (dx > 0) == (dy > 0) {
				rec.Count("tie:edge_through_corner_diagonal")
			} else {
				rec.Count("tie:edge_through_corner_antidiagonal")
			}
		}
	}
}

func judgeSeg(c *fw.Ctx, sc *SegCase) {
	cj := sc.JSON()
	c.Rec.SetCurrent(cj)
	gs, err := getSet(sc.TMS)
	if err != nil {
		c.Rec.Note(err.Error())
		return
	}
	var got map[pointindex.Level][][2]float64
	levelMap := map[pointindex.Level]any{}
	for _, z := range sc.IDs {
		levelMap[gs.Level(z)] = struct{}{}
	}
	var pan any
	func() {
		defer func() { pan = recover() }()
		ix, err := pointindex.FromTileMatrixSet(gs.TMS, sc.Deepest)
		if err != nil {
			panic(err)
		}
		for _, p := range sc.Points {
			if err := ix.InsertPoint(p); err != nil {
				panic(err)
			}
		}
		got = ix.SnapClosestPoints(geom.Line{sc.A, sc.B}, levelMap, 0)
	}()
	c.Rec.Eval()
	if pan != nil {
		c.Rec.Abort(fmt.Sprintf("panic: %v", pan), cj)
		return
	}
	req := gs.Request([]int{sc.Deepest})
	ia, ib := grid.FromFloatPoint(sc.A), grid.FromFloatPoint(sc.B)
	nt := false
	for _, z := range sc.IDs {
		g := req.Grid(z)
		hot := map[PixKey]bool{}
		for _, p := range sc.Points {
			kx, ky := g.PixOf(grid.FromFloatPoint(p))
			hot[PixKey{kx, ky}] = true
		}
		want := g.Route(ia, ib, hot)
		gotz := got[gs.Level(z)]
		c.Rec.Count("comparisons")
		if len(want) >= 3 {
			nt = true
		}
		if len(hot) <= 2 {
			c.Rec.Count("tie:degenerate_hot_set")
		}
		tieClasses(g, ia, ib, c.Rec)
		ok := len(gotz) == len(want)
		gotk := make([]PixKey, len(gotz))
		for i, p := range gotz {
			ip := grid.FromFloatPoint(p)
			kx, ky := g.PixOf(ip)
			gotk[i] = PixKey{kx, ky}
			cc := g.Centre(kx, ky)
			if offCentre(cc, ip) {
				ok = false
			}
			if ok && gotk[i] != want[i] {
				ok = false
			}
		}
		if !ok {
			class := "order-or-other"
			switch {
			case len(gotk) > len(want):
				class = "extra-pixel"
			case len(gotk) < len(want):
				class = "missing-pixel"
			}
			c.Rec.Violation(class, "", fmt.Sprintf("tile matrix %d (pixel %d units): segment %v -> %v (int %v -> %v): expected hot pixels in order of travel %v, SnapClosestPoints returned %v", z, g.Pix, sc.A, sc.B, ia, ib, want, gotk),
				cj, map[string]any{"tile_matrix": z, "hot_pixels": keys(hot), "expected": want, "got": gotk, "got_coords": gotz})
		}
	}
	if nt {
		c.Rec.NonTrivial(fw.Hash64(cj))
	}
	if c.Rec.WantSample() {
		c.Rec.Sample(map[string]any{"case": sc, "result": got})
	}
}

func keys(m map[PixKey]bool) []PixKey {
	var ks []PixKey
	for k := range m {
		ks = append(ks, k)
	}
	return ks
}

var c02Sets = []SetChoice{
	{Spec: dy(2, 16, 0)}, {Spec: dy(2, 16, 0)}, {Spec: dy(4, 16, 0)}, {Spec: dy(3, 16, -8)}, {Spec: dy(6, 1, 0)},
	{Spec: grid.Spec{Depth: 3, Cell: 0.5, Origin: 100, TileWidth: 256}},
	{Spec: grid.Spec{Name: "NetherlandsRDNewQuad"}}, {Spec: grid.Spec{Name: "WebMercatorQuad"}},
}

// genSegCase: random segment + hot set on the quarter-pixel lattice, window centred on a quadtree boundary of random depth.
func genSegCase(rng *fw.Rng) *SegCase {
	sc := fw.Pick(rng, c02Sets)
	gs, _ := getSet(sc.Spec)
	var deepest int
	if sc.Spec.Name == "" {
		deepest = sc.Spec.Depth
		if rng.Chance(1, 4) {
			deepest = rng.Intn(sc.Spec.Depth + 1)
		}
	} else {
		deepest = 3 + rng.Intn(13)
	}
	req := gs.Request([]int{deepest})
	// the levels compared: a random non-empty subset of the six deepest ones (gaps between requested levels included)
	var ids []int
	for z := max(0, deepest-5); z <= deepest; z++ {
		if rng.Chance(1, 2) {
			ids = append(ids, z)
		}
	}
	if len(ids) == 0 {
		ids = []int{deepest - rng.Intn(min(deepest, 2)+1)}
	}
	pix := req.ResD
	q := pix / 4
	W := int64(2 + rng.Intn(5)) // pixels
	n := int64(1) << req.D
	var px, py int64
	if rng.Chance(3, 4) {
		d := uint(1 + rng.Intn(int(req.D)))
		cell := int64(1) << (req.D - d)
		px, py = (1+rng.Int63n(int64(1)<<d))*cell-W/2, (1+rng.Int63n(int64(1)<<d))*cell-W/2
	} else {
		px, py = rng.Int63n(n-W), rng.Int63n(n-W)
	}
	px, py = clamp(px, 0, n-W-1), clamp(py, 0, n-W-1)
	rp := func() [2]float64 {
		var x, y int64
		switch rng.Intn(6) {
		case 0: // on a corner
			x, y = rng.Int63n(W)*pix, rng.Int63n(W)*pix
		case 1: // one unit off a border
			x, y = rng.Int63n(W)*pix+int64(rng.Intn(3))-1, rng.Int63n(4*W)*q
		default:
			x, y = rng.Int63n(4*W)*q, rng.Int63n(4*W)*q
		}
		ip := P{gs.OX + px*pix + x, gs.OY + py*pix + y}
		if ip[0] < gs.OX {
			ip[0] = gs.OX
		}
		f, _ := grid.ToFloatPoint(ip)
		return f
	}
	c := &SegCase{TMS: sc.Spec, Deepest: deepest, IDs: ids, A: rp(), B: rp()}
	c.Points = [][2]float64{c.A, c.B}
	for k := rng.Intn(9); k > 0; k-- {
		c.Points = append(c.Points, rp())
	}
	return c
}

var c02LongSets = []grid.Spec{{Name: "WebMercatorQuad"}, {Name: "WebMercatorQuad"}, {Name: "EuropeanETRS89_LAEAQuad"}, {Name: "WorldMercatorWGS84Quad"},
	{Name: "NetherlandsRDNewQuad"}, {Depth: 14, Cell: 8, Origin: 4.4e8, TileWidth: 256}}

// genLongSegCase: an edge across a large part of the extent (hundreds to thousands of km on the metric sets, operands far
// beyond 2^53 integer units) aimed at a corner of a hot pixel: among the float64 neighbours of the far endpoint the one whose
// line passes closest to the corner is taken, on a random side. Whether the edge clips the pixel is decided by the exact oracle.
func genLongSegCase(rng *fw.Rng) *SegCase {
	spec := fw.Pick(rng, c02LongSets)
	gs, err := getSet(spec)
	if err != nil {
		return genSegCase(rng)
	}
	lo, hi := 3, 12
	if spec.Name == "" {
		lo, hi = 2, spec.Depth
	}
	deepest := lo + rng.Intn(hi-lo+1)
	req := gs.Request([]int{deepest})
	pix := req.ResD
	n := int64(1) << req.D
	inGrid := func() P { return P{gs.OX + rng.Int63n(n*pix), gs.OY + rng.Int63n(n*pix)} }
	kx, ky := 1+rng.Int63n(n-2), 1+rng.Int63n(n-2)
	K := P{gs.OX + (kx+int64(rng.Intn(2)))*pix, gs.OY + (ky+int64(rng.Intn(2)))*pix}
	var fa [2]float64
	var ia P
	for try := 0; ; try++ {
		fa, _ = grid.ToFloatPoint(inGrid())
		ia = grid.FromFloatPoint(fa)
		dx, dy := ia[0]-K[0], ia[1]-K[1]
		if try > 20 || dx > n*pix/8 || dx < -n*pix/8 || dy > n*pix/8 || dy < -n*pix/8 {
			break
		}
	}
	// the far endpoint: beyond the corner, as far as the extent allows (at most 3x the distance A-K)
	t := 0.2 + 2.8*rng.Float64()
	for ; t > 0.01; t *= 0.7 {
		bx, by := float64(K[0])+t*float64(K[0]-ia[0]), float64(K[1])+t*float64(K[1]-ia[1])
		if bx > float64(gs.OX) && bx < float64(gs.OX+n*pix) && by > float64(gs.OY) && by < float64(gs.OY+n*pix) {
			break
		}
	}
	fb0 := [2]float64{(float64(K[0]) + t*float64(K[0]-ia[0])) / 1e10, (float64(K[1]) + t*float64(K[1]-ia[1])) / 1e10}
	cross := func(b P) *big.Int { // (b-a) x (K-a), exact
		x1, y1 := big.NewInt(b[0]-ia[0]), big.NewInt(b[1]-ia[1])
		x2, y2 := big.NewInt(K[0]-ia[0]), big.NewInt(K[1]-ia[1])
		return new(big.Int).Sub(new(big.Int).Mul(x1, y2), new(big.Int).Mul(y1, x2))
	}
	wantSign := rng.Intn(3) - 1 // -1, 0 (closest of all), +1
	var best [2]float64
	var bestAbs *big.Int
	for sx := -4; sx <= 4; sx++ {
		for sy := -4; sy <= 4; sy++ {
			f := fb0
			for k := sx; k != 0; {
				if k > 0 {
					f[0] = math.Nextafter(f[0], math.Inf(1))
					k--
				} else {
					f[0] = math.Nextafter(f[0], math.Inf(-1))
					k++
				}
			}
			for k := sy; k != 0; {
				if k > 0 {
					f[1] = math.Nextafter(f[1], math.Inf(1))
					k--
				} else {
					f[1] = math.Nextafter(f[1], math.Inf(-1))
					k++
				}
			}
			ib := grid.FromFloatPoint(f)
			if !gs.InsideExtent(ib) || ib[0] >= gs.OX+n*pix || ib[1] >= gs.OY+n*pix {
				continue
			}
			cr := cross(ib)
			if wantSign != 0 && cr.Sign() != wantSign {
				continue
			}
			if a := new(big.Int).Abs(cr); bestAbs == nil || a.Cmp(bestAbs) < 0 {
				best, bestAbs = f, a
			}
		}
	}
	if bestAbs == nil {
		return genSegCase(rng)
	}
	c := &SegCase{TMS: spec, Deepest: deepest, IDs: []int{deepest}, A: fa, B: best}
	if rng.Bool() {
		c.A, c.B = c.B, c.A
	}
	c.Points = [][2]float64{c.A, c.B}
	// hot pixels around the corner: 1-4 of the four pixels that meet in K
	for _, d := range [][2]int64{{0, 0}, {-1, 0}, {0, -1}, {-1, -1}} {
		if rng.Chance(1, 2) || len(c.Points) == 2 {
			ip := P{K[0] + d[0]*pix + pix/4 + rng.Int63n(pix/2), K[1] + d[1]*pix + pix/4 + rng.Int63n(pix/2)}
			f, _ := grid.ToFloatPoint(ip)
			if gs.InsideExtent(grid.FromFloatPoint(f)) {
				c.Points = append(c.Points, f)
			}
		}
	}
	if deepest > lo && rng.Chance(1, 3) {
		c.IDs = append(c.IDs, deepest-1)
	}
	return c
}

// exhaustive window: all ordered segments with endpoints on the 13x13 quarter lattice of a 3x3-pixel window
// x every subset of the window's other pixels as additional hot pixels. Indexed by (alignment, depth, segment index);
// one case index = one segment with all subsets.
const c02LatticePts = 13 * 13

func c02ExhaustiveCount() int64 { return 4 * 3 * c02LatticePts * c02LatticePts }

func runC02Exhaustive(c *fw.Ctx, e int64) {
	segIdx := e % (c02LatticePts * c02LatticePts)
	e /= c02LatticePts * c02LatticePts
	depthSel := e % 3
	align := e / 3
	ai, bi := segIdx/c02LatticePts, segIdx%c02LatticePts
	if ai == bi {
		return
	}
	spec := []grid.Spec{dy(2, 16, 0), dy(4, 16, 0), dy(6, 1, 0)}[depthSel]
	gs, _ := getSet(spec)
	deepest := spec.Depth
	req := gs.Request([]int{deepest})
	pix := req.ResD
	q := pix / 4
	n := int64(1) << req.D
	// window alignment: centre pixel at a quadtree boundary of depth 1 (the middle), depth 2, the deepest-but-one, or none
	var px, py int64
	switch align {
	case 0:
		px, py = n/2-1, n/2-1
	case 1:
		px, py = n/4-1, n/2+n/4-2
	case 2:
		px, py = n/2+2-1, n/2-2-2
	default:
		px, py = 5, 9
	}
	pt := func(i int64) P { return P{gs.OX + px*pix + (i%13)*q, gs.OY + py*pix + (i/13)*q} }
	a, b := pt(ai), pt(bi)
	fa, _ := grid.ToFloatPoint(a)
	fb, _ := grid.ToFloatPoint(b)
	g := req.Grid(deepest)
	akx, aky := g.PixOf(a)
	bkx, bky := g.PixOf(b)
	// other pixels of the window (4x4 pixels are touched by the 13x13 lattice: index 12 lies on the next pixel's border)
	var others [][2]int64
	for wy := int64(0); wy < 3; wy++ {
		for wx := int64(0); wx < 3; wx++ {
			k := PixKey{px + wx, py + wy}
			if k != (PixKey{akx, aky}) && k != (PixKey{bkx, bky}) {
				others = append(others, [2]int64{wx, wy})
			}
		}
	}
	levelMap := map[pointindex.Level]any{gs.Level(deepest): struct{}{}}
	tieClasses(g, a, b, c.Rec)
	for mask := 0; mask < 1<<len(others); mask++ {
		pts := [][2]float64{fa, fb}
		hot := map[PixKey]bool{{akx, aky}: true, {bkx, bky}: true}
		for i, o := range others {
			if mask>>i&1 == 1 {
				ip := P{gs.OX + (px+o[0])*pix + 2*q, gs.OY + (py+o[1])*pix + 2*q}
				f, _ := grid.ToFloatPoint(ip)
				pts = append(pts, f)
				hot[PixKey{px + o[0], py + o[1]}] = true
			}
		}
		ix, err := pointindex.FromTileMatrixSet(gs.TMS, deepest)
		if err != nil {
			panic(err)
		}
		for _, p := range pts {
			if err := ix.InsertPoint(p); err != nil {
				panic(err)
			}
		}
		gotz := ix.SnapClosestPoints(geom.Line{fa, fb}, levelMap, 0)[gs.Level(deepest)]
		want := g.Route(a, b, hot)
		c.Rec.Count("exh:window")
		ok := len(gotz) == len(want)
		for i := 0; ok && i < len(gotz); i++ {
			kx, ky := g.PixOf(grid.FromFloatPoint(gotz[i]))
			if (PixKey{kx, ky}) != want[i] {
				ok = false
			}
		}
		if !ok {
			sc := &SegCase{TMS: spec, Deepest: deepest, IDs: []int{deepest}, A: fa, B: fb, Points: pts}
			judgeSeg(c, sc) // records the violation with full detail
			c.Rec.Evals(-1)
		}
	}
	c.Rec.Evals(int64(1) << len(others))
	if len(others) >= 7 {
		c.Rec.NonTrivial(fw.Hash64([]byte(fmt.Sprintf("exh %d %d %d", align, depthSel, segIdx))))
	}
}

func init() {
	prC02b := &Profile{Sets: defaultSets, Kinds: validKinds, ValidOnly: true, Zoo: true, Repeat: true}
	quickRandom, thoroughRandom := int64(300000), int64(3000000)
	quickPoly, thoroughPoly := int64(20000), int64(300000)
	cases := func(t string) int64 {
		if t == "thorough" {
			return thoroughRandom + thoroughPoly + c02ExhaustiveCount()
		}
		return quickRandom + quickPoly + c02ExhaustiveCount()/24 // a 1/24 slice of the window in quick
	}
	monB := func(c *fw.Ctx, o *Obs, cj []byte) bool {
		if !o.Valid {
			return false
		}
		fs, checked := monC02b(o)
		c.Rec.Add("polygon_level_cases_without_collapse", int64(checked))
		report(c, o, cj, fs)
		return checked > 0
	}
	fw.Register(&fw.Prop{
		ID: "C02", Cases: cases,
		Run: func(c *fw.Ctx) {
			nr, np := quickRandom, quickPoly
			if c.Tier == "thorough" {
				nr, np = thoroughRandom, thoroughPoly
			}
			switch {
			case c.Idx < nr:
				if c.Idx%20 == 7 {
					sc := genLongSegCase(c.Rng)
					c.Rec.Count("long_edge_aimed_at_a_hot_pixel_corner")
					judgeSeg(c, sc)
					break
				}
				judgeSeg(c, genSegCase(c.Rng))
			case c.Idx < nr+np:
				snapRun(prC02b, true, monB)(c)
			default:
				e := c.Idx - nr - np
				if c.Tier != "thorough" {
					e = e*24 + int64(c.Seed%24+24)%24 // a different slice per seed
				}
				runC02Exhaustive(c, e)
			}
		},
		Replay: func(c *fw.Ctx, raw json.RawMessage) {
			var probe struct {
				Poly [][][2]float64 `json:"poly"`
			}
			_ = json.Unmarshal(raw, &probe)
			if probe.Poly != nil {
				snapReplay(true, monB)(c, raw)
				return
			}
			var sc SegCase
			if err := json.Unmarshal(raw, &sc); err != nil {
				c.Rec.Note(err.Error())
				return
			}
			judgeSeg(c, &sc)
		},
		Rule: "(a) SnapClosestPoints after InsertPoint of a chosen vertex set, compared element by element with the oracle's Route (exact closed-segment / half-open-pixel intervals ordered along the segment): random quarter-lattice segments in windows centred on quadtree boundaries, real-grid coordinates on and one unit off pixel borders, 1 case in 20 an edge across a large part of the extent (operands beyond 2^53 units) aimed at a corner of a hot pixel via the float64 neighbours of its far endpoint, plus the exhaustive 3x3-pixel window (every ordered lattice segment x every subset of the other pixels); (b) SnapPolygon of valid polygons where nothing collapses must equal the routed chains up to rotation; non-trivial = route of >= 3 pixels, or polygon without collapse; distinct by case hash",
		Required: func(string) []string {
			return []string{"tie:endpoint_on_corner", "tie:endpoint_on_vertical_border", "tie:endpoint_on_horizontal_border", "tie:edge_along_vertical_border", "tie:edge_along_horizontal_border",
				"tie:edge_through_corner_diagonal", "tie:edge_through_corner_antidiagonal", "tie:degenerate_hot_set", "polygon_level_cases_without_collapse", "exh:window", "long_edge_aimed_at_a_hot_pixel_corner"}
		},
		MinNonTriv:  1000,
		Exhaustive:  map[string]string{"exh:window": "all ordered segments with endpoints on the 13x13 quarter-pixel lattice of a 3x3-pixel window x every subset of the window's other pixels as extra hot pixels x 3 grid depths x 4 window alignments (thorough: complete; quick: the 1/24 slice selected by the seed)"},
		Assumptions: []string{"hot pixels are those of the inserted points at that level", "coordinates on the tool's 1e-10 integer grid"},
		Technique:   "runtime monitor: exact routing reference model vs SnapClosestPoints / SnapPolygon",
		FlushEvery:  20000,
	})
}
