package main

import (
	"encoding/json"
	"fmt"
	"os"
	"os/exec"
	"path/filepath"
	"strconv"
	"strings"

	"verifharness/fuzzcase"
	"verifharness/fw"
	"verifharness/grid"

	"github.com/pdok/texel/verifhook"
)

const (
	sigL33 = "MustToZ-panic-level>32"
	sigGAP = "OutsideGridError-in-uncovered-sliver-of-non-round-grid"
)

var kmpSites = []string{"kmpDeduplicate", "kmpSearchAll", "kmpSearch", "kmpTable", "kmpCorpus"}

// stepBudgets: logical-step budgets for the loops of the spike removal, as a function of the work size N
// (input vertices + length of the routed chains over all requested matrices + 8).
// Honest code needs about N iterations of the outer loop and O(N^2) inner steps; the budgets have a wide margin
// (see DESIGN.md C06 for the measured maxima).
func stepBudgets(n int) map[string]int {
	return map[string]int{
		"kmpDeduplicate": 8 * n * n,
		"kmpSearchAll":   16 * n * n,
		"kmpCorpus":      16 * n * n,
		"kmpSearch":      64 * n * n * n,
		"kmpTable":       64 * n * n * n,
	}
}

func workSize(o *Obs) int {
	n := o.MaxVertices + 8
	for _, z := range o.UIDs {
		for _, ch := range o.FactsFor(z).Chains {
			n += len(ch)
		}
	}
	return n
}

var c06Sets = append(append([]SetChoice{}, defaultSets...),
	SetChoice{Spec: grid.Spec{Name: "WebMercatorQuad"}, Bases: []int{19, 20, 21, 22}, Span: 3}, // levels 31..36: KF-L33 territory
	SetChoice{Spec: grid.Spec{Name: "WorldMercatorWGS84Quad"}, Bases: []int{12, 20}, Span: 3},
	SetChoice{Spec: grid.Spec{Name: "UPSArcticWGS84Quad"}, Bases: []int{8}},
	SetChoice{Spec: grid.Spec{Name: "NZTM2000Quad"}, Bases: []int{6}},
)

func judgeC06(c *fw.Ctx, sc *SnapCase) {
	cj := sc.JSON()
	c.Rec.SetCurrent(cj)
	var n int
	o, err := observeBudget(sc, func(o *Obs) {
		n = workSize(o)
		b := stepBudgets(n)
		verifhook.SetBudget(b["kmpDeduplicate"])
		for s, v := range b {
			verifhook.SetSiteBudget(s, v)
		}
	})
	if err != nil {
		c.Rec.Count("skipped:observe-error")
		return
	}
	c.Rec.Eval()
	c.Rec.Count("gen:" + sc.Kind)
	countSet(c.Rec, sc)
	if !o.Valid {
		c.Rec.Count("invalid_input")
	}
	if !o.AllInside {
		c.Rec.Count("skipped:vertex-outside-extent")
		return
	}
	for _, r := range o.Rings {
		if len(r) < 3 {
			c.Rec.Count("input_ring_with_<3_points")
		}
		if len(r) == 0 {
			c.Rec.Count("input_ring_without_points")
		}
	}
	if len(o.Rings) == 0 {
		c.Rec.Count("input_polygon_without_rings")
	}
	// non-trivial: a chain with a repeated centre (reaches kmpDeduplicate / splitRing paths)
	nt := false
	if o.Req.D <= 40 {
		for _, z := range o.UIDs {
			if o.FactsFor(z).MaxMult >= 2 {
				nt = true
			}
		}
	}
	for _, s := range kmpSites {
		t := o.Ticks[s]
		c.Rec.Max("ticks:"+s, int64(t))
		if n > 0 {
			c.Rec.Max("ticks_per_N_x1000:"+s, int64(t)*1000/int64(n))
			c.Rec.Max("ticks_per_N2_x1000:"+s, int64(t)*1000/int64(n*n))
		}
	}
	c.Rec.Max("work_size_N", int64(n))
	if o.Panic != nil {
		sig := ""
		class := "panic:" + o.PanicSite
		switch {
		case strings.Contains(o.PanicText, "cannot make Z out of") && o.Req.D > 32:
			sig = sigL33
		case o.IsOutsideGridPanic() && !o.Req.Round && !o.AllCovered:
			sig = sigGAP
		}
		if be, ok := o.Panic.(verifhook.BudgetExceeded); ok {
			class = "step-budget-exceeded:" + be.Site
		}
		c.Rec.Violation(class, sig, fmt.Sprintf("all %d vertices are inside the half-open extent, but SnapPolygon did not return normally: %s (top texel frame %s); deepest level %d, grid round=%v, all vertices inside the covered integer grid=%v; work size N=%d", o.MaxVertices, o.PanicText, o.PanicSite, o.Req.D, o.Req.Round, o.AllCovered, n), cj, o.Detail(-1))
	} else {
		c.Rec.Count("returned_normally")
	}
	if nt {
		c.Rec.NonTrivial(fw.Hash64(cj))
		c.Rec.Count("chain_with_repeated_centre")
	}
	if c.Rec.WantSample() {
		c.Rec.Sample(map[string]any{"case": sc, "ticks": o.Ticks, "work_size_N": n, "panic": o.PanicText})
	}
}

// genSliverCase: vertices inside the extent but close to the right/top border of non-round grids (KF-GAP territory).
func genSliverCase(rng *fw.Rng) *SnapCase {
	spec := fw.Pick(rng, []grid.Spec{{Name: "WebMercatorQuad"}, {Name: "WorldMercatorWGS84Quad"}, {Name: "EuropeanETRS89_LAEAQuad"}})
	gs, _ := getSet(spec)
	id := min(8+rng.Intn(12), gs.IDs[len(gs.IDs)-1])
	req := gs.Request([]int{id})
	cx, cy := req.CoveredMax()
	side := rng.Bool()
	pt := func() P {
		// within a few units/pixels of the border, inside the extent
		d := []int64{1, 2, 10, req.ResD / 2, req.ResD, 3 * req.ResD}[rng.Intn(6)] + rng.Int63n(3)
		x := gs.OX + gs.Span/3 + rng.Int63n(10*req.ResD)
		if side {
			return P{gs.MaxX - d, x - gs.OX + gs.OY}
		}
		return P{x, gs.MaxY - d}
	}
	_, _ = cx, cy
	ring := [][2]float64{}
	for k := 3 + rng.Intn(3); k > 0; k-- {
		f, _ := grid.ToFloatPoint(pt())
		ring = append(ring, f)
	}
	return &SnapCase{TMS: spec, IDs: []int{id}, Keep: rng.Bool(), Poly: [][][2]float64{ring}, Kind: "border-sliver"}
}

// c06Fuzz (thorough tier): a coverage-guided campaign of Go's native fuzzer as an additional workload generator.
// The oracle stays C06's runtime monitor (normal return + step budgets), inside harness/fuzz.FuzzSnap.
func c06Fuzz(p *fw.ParentCtx) {
	if p.Tier != "thorough" {
		return
	}
	harness := os.Getenv("VERIF_HARNESS")
	if harness == "" {
		p.Inconclusive = append(p.Inconclusive, "fuzz campaign not run: VERIF_HARNESS unset")
		return
	}
	execs := "1500000x"
	if e := os.Getenv("VERIF_FUZZ_EXECS"); e != "" { // for testing the campaign plumbing only
		execs = e
	}
	args := []string{"test"}
	if mf := os.Getenv("VERIF_GO_MODFILE"); mf != "" {
		args = append(args, "-modfile="+mf)
	}
	args = append(args, "-tags", "verif", "-run", "^$", "-fuzz", "FuzzSnap", "-fuzztime", execs, "-parallel", "16", "./fuzz")
	cmd := exec.Command("timeout", append([]string{"-s", "QUIT", "5400", "go"}, args...)...)
	cmd.Dir = harness
	out, err := cmd.CombinedOutput()
	text := string(out)
	lastStats := ""
	for _, l := range strings.Split(text, "\n") {
		if strings.HasPrefix(l, "fuzz: elapsed:") {
			lastStats = l
		}
	}
	p.Extra["fuzz_campaign"] = map[string]any{"target": "harness/fuzz.FuzzSnap", "budget": execs, "last_status_line": lastStats}
	if i := strings.Index(text, "Failing input written to "); i >= 0 {
		rest := text[i+len("Failing input written to "):]
		path := strings.TrimSpace(strings.SplitN(rest, "\n", 2)[0])
		full := filepath.Join(harness, "fuzz", path)
		b, rerr := os.ReadFile(full)
		var cj []byte
		if rerr == nil {
			lines := strings.Split(string(b), "\n")
			if len(lines) >= 2 && strings.HasPrefix(lines[1], "[]byte(") {
				if raw, uerr := strconv.Unquote(strings.TrimSuffix(strings.TrimPrefix(lines[1], "[]byte("), ")")); uerr == nil {
					if c := fuzzcase.Decode([]byte(raw)); c != nil {
						sc := &SnapCase{TMS: c.Spec, IDs: c.IDs, Keep: c.Keep, Reverse: c.Reverse, Poly: c.Poly, Kind: "fuzz"}
						cj = sc.JSON()
					}
				}
			}
			_ = os.RemoveAll(filepath.Join(harness, "fuzz", "testdata"))
		}
		if cj == nil {
			cj = []byte(`{"note":"fuzz crasher could not be decoded"}`)
		}
		msg := "coverage-guided fuzzing found an input on which SnapPolygon does not return normally: " + tailStr(text, 1500)
		p.Merged.ViolCount["fuzz-crash"]++
		p.Merged.Violations = append(p.Merged.Violations, fw.Violation{Property: "C06", Class: "fuzz-crash", Msg: msg, Case: cj})
		return
	}
	if err != nil {
		p.Inconclusive = append(p.Inconclusive, "fuzz campaign did not complete: "+err.Error()+": "+tailStr(text, 400))
	}
}

func init() {
	pr := &Profile{Sets: c06Sets, Kinds: append(append([]string{}, allKinds...), "junk", "motif", "motif", "degenerate"), Huge: true, Zoo: true, Repeat: true, TileWidth: true}
	fw.Register(&fw.Prop{
		ID: "C06", Cases: tierN(300000, 6000000),
		Run: func(c *fw.Ctx) {
			if c.Idx%50 == 7 {
				judgeC06(c, genSliverCase(c.Rng))
				return
			}
			sc, why := genSnapCase(c.Rng, pr)
			if sc == nil {
				c.Rec.Count("skipped:" + why)
				return
			}
			judgeC06(c, sc)
		},
		Replay: func(c *fw.Ctx, raw json.RawMessage) {
			var sc SnapCase
			if err := json.Unmarshal(raw, &sc); err != nil {
				c.Rec.Note(err.Error())
				return
			}
			judgeC06(c, &sc)
		},
		Rule: "all generators (valid, junk with repeats/step-backs/1-2 point rings/duplicated rings, motif = grammar of back-tracks, repetitions and zig-zags on pixel centres, degenerate = rings of 0/1/2 points, repeated single points, polygons without rings), 1-3 rings, all flags, dyadic + RD + WebMercator (ids up to 24) + WorldMercator + ETRS89 + UPS + NZTM grids, plus polygons within units of the right/top border of non-round grids; observed: normal return / Go panic (value and top texel frame) / death of the worker process / loop step budget of hook H3 exceeded; non-trivial = oracle's routed chain passes a pixel centre more than once; distinct by case hash; thorough adds a coverage-guided campaign of Go's native fuzzer (harness/fuzz.FuzzSnap, 1.5 M executions, corpus seeded from the generators) whose crashers are converted to replay files",
		Required: func(string) []string {
			return []string{"returned_normally", "chain_with_repeated_centre", "input_ring_with_<3_points", "input_ring_without_points", "input_polygon_without_rings", "invalid_input", "gen:motif", "gen:junk"}
		},
		MinNonTriv:       1000,
		Assumptions:      []string{"'time proportional to a small polynomial' is restated as logical step budgets on the kmp loops (8N^2 outer iterations, 64N^3 inner steps; N = input vertices + routed chain lengths + 8); a wall-clock watchdog only makes the run inconclusive", "recursion depth / memory are watched only through death of the worker process"},
		Technique:        "runtime monitor: termination-mode observer with loop step budgets (hook H3) and crash attribution",
		FatalIsViolation: true,
		Watchdog:         func(t string) int { return 1800 },
		Extra:            c06Fuzz,
	})
}
