package main

import (
	"bytes"
	"encoding/json"
	"fmt"
	"hash/crc32"
	"os"
	"path/filepath"
	"reflect"
	"sort"
	"strconv"
	"strings"
	"time"

	"verifharness/fw"

	"github.com/pdok/texel/tms20"
)

// docCase: a JSON document (as text) fed to the decoder.
type docCase struct {
	Base  string   `json:"base"`
	Muts  []string `json:"mutations"`
	Doc   string   `json:"doc"`
	Class []string `json:"demanded_reject_because,omitempty"`
}

const syntheticDoc = `{
 "id": "Synthetic", "title": "Synthetic set", "description": "covers the optional members", "keywords": ["a", "b"],
 "uri": "http://www.opengis.net/def/tilematrixset/OGC/1.0/Synthetic",
 "orderedAxes": ["X", "Y"],
 "crs": {"uri": "http://www.opengis.net/def/crs/EPSG/0/3857", "description": "as object"},
 "wellKnownScaleSet": "http://www.opengis.net/def/wkss/OGC/1.0/GoogleMapsCompatible",
 "boundingBox": {"lowerLeft": [-10.5, -20.25], "upperRight": [30, 40], "crs": "http://www.opengis.net/def/crs/EPSG/0/3857", "orderedAxes": ["X", "Y"]},
 "tileMatrices": [
  {"id": "0", "title": "zero", "description": "d0", "keywords": ["k"], "scaleDenominator": 1000, "cellSize": 0.28, "cornerOfOrigin": "bottomLeft", "pointOfOrigin": [-10.5, -20.25], "tileWidth": 256, "tileHeight": 256, "matrixWidth": 1, "matrixHeight": 1},
  {"id": "1", "scaleDenominator": 500, "cellSize": 0.14, "cornerOfOrigin": "bottomLeft", "pointOfOrigin": [-10.5, -20.25], "tileWidth": 256, "tileHeight": 256, "matrixWidth": 2, "matrixHeight": 2,
   "variableMatrixWidths": [{"coalesce": 2, "minTileRow": 0, "maxTileRow": 0}]}
 ]
}`

func baseDoc(name string) (any, error) {
	if name == "Synthetic" {
		var d any
		err := json.Unmarshal([]byte(syntheticDoc), &d)
		return d, err
	}
	d, err := loadDoc(name)
	return any(d), err
}

var c16Bases = append(append([]string{}, builtinNames...), "Synthetic")

// ---- JSON tree helpers ----
type jpath []any // string keys / int indices

func walk(v any, p jpath, f func(p jpath, v any)) {
	f(p, v)
	switch t := v.(type) {
	case map[string]any:
		ks := make([]string, 0, len(t))
		for k := range t {
			ks = append(ks, k)
		}
		sort.Strings(ks)
		for _, k := range ks {
			walk(t[k], append(append(jpath{}, p...), k), f)
		}
	case []any:
		for i, e := range t {
			walk(e, append(append(jpath{}, p...), i), f)
		}
	}
}

func getAt(v any, p jpath) any {
	for _, s := range p {
		switch k := s.(type) {
		case string:
			v = v.(map[string]any)[k]
		case int:
			v = v.([]any)[k]
		}
	}
	return v
}

// setAt replaces (or with del deletes) the node at p; returns the new root.
func setAt(root any, p jpath, nv any, del bool) any {
	if len(p) == 0 {
		return nv
	}
	parent := getAt(root, p[:len(p)-1])
	switch k := p[len(p)-1].(type) {
	case string:
		m := parent.(map[string]any)
		if del {
			delete(m, k)
		} else {
			m[k] = nv
		}
	case int:
		l := parent.([]any)
		if del {
			nl := append(append([]any{}, l[:k]...), l[k+1:]...)
			return setAt(root, p[:len(p)-1], nl, false)
		}
		l[k] = nv
	}
	return root
}

func kindOf(v any) string {
	switch v.(type) {
	case nil:
		return "null"
	case string:
		return "string"
	case float64, json.Number:
		return "number"
	case bool:
		return "bool"
	case []any:
		return "array"
	case map[string]any:
		return "object"
	}
	return "?"
}

func pathString(p jpath) string {
	var sb strings.Builder
	for _, s := range p {
		switch k := s.(type) {
		case string:
			sb.WriteString("." + k)
		case int:
			sb.WriteString("[" + strconv.Itoa(k) + "]")
		}
	}
	return sb.String()
}

func deepClone(v any) any {
	b, _ := json.Marshal(v)
	var o any
	_ = json.Unmarshal(b, &o)
	return o
}

var crsForms = []func() any{
	func() any { return "http://www.opengis.net/def/crs/EPSG/0/28992" },
	func() any { return "urn:ogc:def:crs:EPSG::2193" },
	func() any {
		return map[string]any{"uri": "http://www.opengis.net/def/crs/EPSG/0/3857", "description": "uri object"}
	},
	func() any { return map[string]any{"uri": "http://www.opengis.net/def/crs/OGC/1.3/CRS84"} },
	func() any {
		return map[string]any{"wkt": map[string]any{"id": map[string]any{"authority": "EPSG", "code": "28992"}, "name": "Amersfoort / RD New", "type": "ProjectedCRS"}, "description": "wkt form"}
	},
	func() any {
		return map[string]any{"referenceSystem": map[string]any{"code": "x", "nested": map[string]any{"a": []any{1.0, "b"}}}}
	},
	func() any {
		return map[string]any{"referenceSystem": map[string]any{"k": "v"}, "description": "reference system form"}
	},
}
var crsFormNames = []string{"uri-string-url", "uri-string-urn", "uri-object+description", "uri-object", "wkt", "referenceSystem", "referenceSystem+description"}

// mutate applies one random structural mutation; returns its description.
func mutate(rng *fw.Rng, root any) (any, string) {
	var paths []jpath
	walk(root, nil, func(p jpath, v any) {
		if len(p) > 0 {
			paths = append(paths, p)
		}
	})
	// bias towards the members the property names
	if rng.Chance(1, 2) {
		var pref []jpath
		for _, p := range paths {
			if k, ok := p[len(p)-1].(string); ok {
				switch k {
				case "crs", "tileMatrices", "tileWidth", "tileHeight", "matrixWidth", "matrixHeight", "cellSize", "scaleDenominator", "id", "pointOfOrigin", "lowerLeft", "upperRight", "boundingBox", "cornerOfOrigin", "coalesce", "minTileRow", "maxTileRow", "orderedAxes", "variableMatrixWidths":
					pref = append(pref, p)
				}
			}
		}
		if len(pref) > 0 {
			paths = pref
		}
	}
	p := fw.Pick(rng, paths)
	cur := getAt(root, p)
	ps := pathString(p)
	other := func(exclude string) (any, string) {
		for {
			switch rng.Intn(7) {
			case 0:
				if exclude != "string" {
					return fw.Pick(rng, []string{"", "a", "256", "3.5", "topLeft"}), "string"
				}
			case 1:
				if exclude != "number" {
					return fw.Pick(rng, []float64{0, 1, -1, 256, 3.5}), "number"
				}
			case 2:
				if exclude != "array" {
					return fw.Pick(rng, []any{[]any{}, []any{1.0, 2.0}, []any{"X", "Y"}, []any{map[string]any{}}}), "array"
				}
			case 3:
				if exclude != "object" {
					return fw.Pick(rng, []any{map[string]any{}, map[string]any{"uri": "x"}, map[string]any{"id": "0"}}), "object"
				}
			case 4:
				if exclude != "bool" {
					return rng.Bool(), "bool"
				}
			case 5:
				if exclude != "null" {
					return nil, "null"
				}
			}
		}
	}
	last, isKey := p[len(p)-1].(string)
	if isKey && (last == "crs") && rng.Chance(1, 2) {
		i := rng.Intn(len(crsForms))
		return setAt(root, p, crsForms[i](), false), ps + " := crs form " + crsFormNames[i]
	}
	switch rng.Intn(8) {
	case 0: // delete
		return setAt(root, p, nil, true), "delete " + ps
	case 1, 2: // other JSON kind
		nv, k := other(kindOf(cur))
		return setAt(root, p, nv, false), fmt.Sprintf("%s := %s %v", ps, k, nv)
	case 3, 4: // numeric / string edge values of the same kind
		switch cur.(type) {
		case float64:
			nv := fw.Pick(rng, []float64{0, -1, -5, 0.5, 256.5, 1e308, 5e-324, 18446744073709551616, 9223372036854775808, 4294967296, -0.0, 1e19, 2, 3})
			return setAt(root, p, nv, false), fmt.Sprintf("%s := %v", ps, nv)
		case string:
			nv := fw.Pick(rng, []string{"", "a", "3.5", " 5", "05", "-1", "1e3", "99999999999999999999", "9223372036854775807", "-9223372036854775808", "-9223372036854775807", "4611686018427387904", "-4611686018427387905", "-2", "2147483648", "0x10", "٣", "bottomLeft", "middle", "http://x", "not a uri", "urn:ogc:def:crs:EPSG::4326"})
			return setAt(root, p, nv, false), fmt.Sprintf("%s := %q", ps, nv)
		}
		fallthrough
	case 5: // array surgery
		if l, ok := cur.([]any); ok {
			switch rng.Intn(4) {
			case 0:
				if len(l) > 0 {
					i := rng.Intn(len(l))
					return setAt(root, append(append(jpath{}, p...), i), nil, true), fmt.Sprintf("drop %s[%d]", ps, i)
				}
			case 1:
				if len(l) > 0 {
					i := rng.Intn(len(l))
					nl := append(append([]any{}, l...), deepClone(l[i]))
					return setAt(root, p, nl, false), fmt.Sprintf("duplicate %s[%d]", ps, i)
				}
			case 2:
				return setAt(root, p, append(append([]any{}, l...), 3.0), false), "append number to " + ps
			default:
				return setAt(root, p, []any{}, false), "empty " + ps
			}
		}
		fallthrough
	case 6: // unknown key next to it
		if len(p) > 0 {
			if par, ok := getAt(root, p[:len(p)-1]).(map[string]any); ok {
				par["unknownMember"] = fw.Pick(rng, []any{1.0, "x", []any{}, map[string]any{"a": 1.0}})
				return root, "add unknown member at " + pathString(p[:len(p)-1])
			}
		}
		fallthrough
	default:
		nv, k := other(kindOf(cur))
		return setAt(root, p, nv, false), fmt.Sprintf("%s := %s %v", ps, k, nv)
	}
}

// demandedReject: does the document fall in a class for which the statement demands an error? (independent predicate)
func demandedReject(doc any) []string {
	var why []string
	root, ok := doc.(map[string]any)
	if !ok {
		return []string{"document is not an object"}
	}
	crs, has := root["crs"]
	switch {
	case !has:
		why = append(why, "crs missing")
	case crs == nil:
		why = append(why, "crs null")
	default:
		if k := kindOf(crs); k != "string" && k != "object" {
			why = append(why, "crs of wrong JSON kind "+k)
		}
	}
	tms, has := root["tileMatrices"]
	switch {
	case !has:
		why = append(why, "tileMatrices missing")
	case tms == nil:
		why = append(why, "tileMatrices null")
	case kindOf(tms) != "array":
		why = append(why, "tileMatrices of wrong JSON kind "+kindOf(tms))
	case len(tms.([]any)) == 0:
		why = append(why, "tileMatrices empty")
	}
	typed := func(m map[string]any, where string, spec map[string]string) {
		for k, want := range spec {
			v, ok := m[k]
			if !ok || v == nil {
				continue
			}
			got := kindOf(v)
			if got != want {
				why = append(why, fmt.Sprintf("%s.%s is a %s, not a %s", where, k, got, want))
			}
		}
	}
	typed(root, "", map[string]string{"id": "string", "title": "string", "description": "string", "keywords": "array", "uri": "string", "orderedAxes": "array", "wellKnownScaleSet": "string", "boundingBox": "object"})
	if l, ok := tms.([]any); ok {
		for i, e := range l {
			m, ok := e.(map[string]any)
			if !ok {
				if e != nil {
					why = append(why, fmt.Sprintf("tileMatrices[%d] is a %s, not an object", i, kindOf(e)))
				}
				continue
			}
			w := fmt.Sprintf("tileMatrices[%d]", i)
			typed(m, w, map[string]string{"id": "string", "title": "string", "description": "string", "keywords": "array", "scaleDenominator": "number", "cellSize": "number", "cornerOfOrigin": "string",
				"pointOfOrigin": "array", "tileWidth": "number", "tileHeight": "number", "matrixWidth": "number", "matrixHeight": "number", "variableMatrixWidths": "array"})
			for _, k := range []string{"tileWidth", "tileHeight", "matrixWidth", "matrixHeight", "cellSize", "scaleDenominator"} {
				if f, ok := m[k].(float64); ok && f <= 0 {
					why = append(why, fmt.Sprintf("%s.%s = %v is not positive", w, k, f))
				}
			}
			if s, ok := m["id"].(string); ok {
				if _, err := strconv.ParseFloat(s, 64); err != nil || strings.ContainsAny(s, ".eExX ") || s == "" {
					if _, ierr := strconv.ParseInt(s, 10, 64); ierr != nil {
						why = append(why, fmt.Sprintf("%s.id = %q is not an integer", w, s))
					}
				}
			}
		}
	}
	return why
}

func judgeDoc(c *fw.Ctx, dc *docCase) {
	cj, _ := json.Marshal(dc)
	c.Rec.SetCurrent(cj)
	c.Rec.Eval()
	var v1 tms20.TileMatrixSet
	var err1 error
	var pan any
	func() {
		defer func() { pan = recover() }()
		err1 = json.Unmarshal([]byte(dc.Doc), &v1)
	}()
	if pan != nil {
		c.Rec.Violation("decode-panics", panicSig(dc, pan), fmt.Sprintf("decoding the document (%s; %s) panicked: %v", dc.Base, strings.Join(dc.Muts, "; "), pan), cj, nil)
		return
	}
	if len(dc.Class) > 0 {
		c.Rec.Count("demanded_reject_documents")
		c.Rec.NonTrivial(fw.Hash64([]byte(dc.Doc)))
		if err1 == nil {
			c.Rec.Violation("malformed-document-accepted", "", fmt.Sprintf("document (%s; %s) is malformed (%s) but decodes without error", dc.Base, strings.Join(dc.Muts, "; "), strings.Join(dc.Class, "; ")), cj, nil)
		}
	}
	if err1 != nil {
		c.Rec.Count("rejected_with_error")
		return
	}
	c.Rec.Count("decoded")
	c.Rec.NonTrivial(fw.Hash64([]byte(dc.Doc)))
	c.Rec.Count("crs_form:" + strings.TrimPrefix(fmt.Sprintf("%T", v1.CRS), "*tms20."))
	if u, ok := v1.CRS.(*tms20.URICRS); ok {
		if b, _ := json.Marshal(u); len(b) > 0 && b[0] == '"' {
			c.Rec.Count("crs_form:URICRS-as-string")
		}
	}
	var e1, e2 []byte
	var v2 tms20.TileMatrixSet
	var err error
	stage := "encode"
	func() {
		defer func() { pan = recover() }()
		e1, err = json.Marshal(&v1)
		if err != nil {
			return
		}
		stage = "re-decode"
		err = json.Unmarshal(e1, &v2)
		if err != nil {
			return
		}
		stage = "re-encode"
		e2, err = json.Marshal(&v2)
	}()
	det := map[string]any{"first_encoding": string(e1), "second_encoding": string(e2)}
	switch {
	case pan != nil:
		c.Rec.Violation("roundtrip-panics", "", fmt.Sprintf("%s of a decoded document (%s; %s) panicked: %v", stage, dc.Base, strings.Join(dc.Muts, "; "), pan), cj, det)
		return
	case err != nil:
		c.Rec.Violation("roundtrip-error", "", fmt.Sprintf("%s of a decoded document (%s; %s) failed: %v", stage, dc.Base, strings.Join(dc.Muts, "; "), err), cj, det)
		return
	}
	if !semEqual(reflect.ValueOf(v1), reflect.ValueOf(v2)) {
		c.Rec.Violation("value-changes-across-decode-encode", "", fmt.Sprintf("document (%s; %s): decode -> encode -> decode yields a different value: %s", dc.Base, strings.Join(dc.Muts, "; "), firstDiff(v1, v2)), cj, det)
	} else if !bytes.Equal(e1, e2) {
		c.Rec.Violation("encoding-not-stable", "", fmt.Sprintf("document (%s; %s): second encoding differs from the first", dc.Base, strings.Join(dc.Muts, "; ")), cj, det)
	} else {
		// stable also means: the same value encodes to the same bytes every time (member order must not follow map iteration)
		for k := 0; k < 3; k++ {
			var ek []byte
			func() {
				defer func() { pan = recover() }()
				ek, err = json.Marshal(&v1)
			}()
			if pan != nil || err != nil || !bytes.Equal(e1, ek) {
				det["repeated_encoding"] = string(ek)
				c.Rec.Violation("encoding-not-stable", "", fmt.Sprintf("document (%s; %s): encoding the same decoded value again gives different bytes (panic=%v err=%v)", dc.Base, strings.Join(dc.Muts, "; "), pan, err), cj, det)
				break
			}
		}
		c.Rec.Count("repeated_encodings_of_one_value_compared")
	}
	// history: the encoding of an already decoded value must not depend on what else is decoded meanwhile.
	// Decode siblings of this document whose crs (and bounding box crs) is written in the other URI form
	// (plain string <-> {"uri": ...}), then encode the first value again.
	if sib := crsSiblings(dc.Doc); len(sib) > 0 {
		var e3 []byte
		func() {
			defer func() { pan = recover() }()
			for _, sd := range sib {
				var other tms20.TileMatrixSet
				_ = json.Unmarshal([]byte(sd), &other)
			}
			e3, err = json.Marshal(&v1)
		}()
		c.Rec.Count("history:sibling_documents_decoded_between_encodings")
		if pan != nil || err != nil || !bytes.Equal(e1, e3) {
			c.Rec.Violation("encoding-depends-on-other-decodes", "", fmt.Sprintf("document (%s; %s): after decoding a sibling document that writes the same crs uri in the other form, the already decoded value encodes differently (panic=%v err=%v)", dc.Base, strings.Join(dc.Muts, "; "), pan, err), cj,
				map[string]any{"encoding_before": string(e1), "encoding_after": string(e3), "siblings": sib})
		}
		// put the forms back as this document has them, so later cases start from the same state as a fresh process would
		var again tms20.TileMatrixSet
		_ = json.Unmarshal([]byte(dc.Doc), &again)
	}
	if len(dc.Muts) == 0 && dc.Base != "" {
		// built-in (or synthetic) document: the re-encoded JSON equals the original as a JSON value
		var a, b any
		_ = json.Unmarshal([]byte(dc.Doc), &a)
		_ = json.Unmarshal(e1, &b)
		c.Rec.Count("original_documents_compared")
		if d := jsonDiff(a, b, ""); d != "" {
			c.Rec.Violation("re-encoding-differs-from-original", "", fmt.Sprintf("%s: re-encoded JSON is not semantically equal to the original: %s", dc.Base, d), cj, det)
		}
	}
	if c.Rec.WantSample() && len(dc.Muts) > 0 {
		c.Rec.Sample(map[string]any{"base": dc.Base, "mutations": dc.Muts, "decoded": true, "crs_type": fmt.Sprintf("%T", v1.CRS), "encoding_bytes": len(e1)})
	}
}

func panicSig(dc *docCase, pan any) string { return "" }

// crsSiblings: variants of the document in which every crs given as a URI is written in the other form.
func crsSiblings(doc string) []string {
	var d any
	if json.Unmarshal([]byte(doc), &d) != nil {
		return nil
	}
	root, ok := d.(map[string]any)
	if !ok {
		return nil
	}
	toggled := 0
	toggle := func(m map[string]any) {
		switch c := m["crs"].(type) {
		case string:
			m["crs"] = map[string]any{"uri": c}
			toggled++
		case map[string]any:
			if u, ok := c["uri"].(string); ok && len(c) == 1 {
				m["crs"] = u
				toggled++
			}
		}
	}
	toggle(root)
	if bb, ok := root["boundingBox"].(map[string]any); ok {
		toggle(bb)
	}
	if toggled == 0 {
		return nil
	}
	b, _ := json.Marshal(root)
	return []string{string(b)}
}

// checkEmbeddedStillOriginal: the values the package hands out for built-in sets must still re-encode to their documents,
// whatever was decoded in this process before (they are cached pointers).
func checkEmbeddedStillOriginal(c *fw.Ctx) {
	for _, name := range builtinNames {
		t, err := tms20.LoadEmbeddedTileMatrixSet(name)
		if err != nil {
			continue
		}
		orig, err := readFileBytes(repoTMSPath(name))
		if err != nil {
			continue
		}
		var e []byte
		var pan any
		func() {
			defer func() { pan = recover() }()
			e, err = json.Marshal(&t)
		}()
		c.Rec.Count("history:embedded_sets_re-encoded_after_other_decodes")
		var a, b any
		_ = json.Unmarshal(orig, &a)
		_ = json.Unmarshal(e, &b)
		if d := jsonDiff(a, b, ""); pan != nil || err != nil || d != "" {
			cj, _ := json.Marshal(docCase{Base: name, Muts: []string{"(embedded set after " + fmt.Sprint(c.Idx) + " other documents of this worker)"}, Doc: string(orig)})
			c.Rec.Violation("embedded-set-no-longer-equals-its-document", "", fmt.Sprintf("built-in %s, loaded through LoadEmbeddedTileMatrixSet after other documents were decoded in the same process, re-encodes differently from its document: %s (panic=%v err=%v)", name, d, pan, err), cj, map[string]any{"encoding": string(e)})
		}
	}
}

// semEqual: deep equality that reads unexported fields and treats nil and empty slices/maps as equal
// (an empty list and an absent list are the same value semantically; omitempty drops both).
func semEqual(a, b reflect.Value) bool {
	if a.IsValid() != b.IsValid() {
		return false
	}
	if !a.IsValid() {
		return true
	}
	if a.Type() != b.Type() {
		return false
	}
	switch a.Kind() {
	case reflect.Ptr, reflect.Interface:
		if a.IsNil() || b.IsNil() {
			return a.IsNil() == b.IsNil()
		}
		return semEqual(a.Elem(), b.Elem())
	case reflect.Slice, reflect.Array:
		if a.Len() != b.Len() {
			return false
		}
		for i := 0; i < a.Len(); i++ {
			if !semEqual(a.Index(i), b.Index(i)) {
				return false
			}
		}
		return true
	case reflect.Map:
		if a.Len() != b.Len() {
			return false
		}
		it := a.MapRange()
		for it.Next() {
			bv := b.MapIndex(it.Key())
			if !bv.IsValid() || !semEqual(it.Value(), bv) {
				return false
			}
		}
		return true
	case reflect.Struct:
		for i := 0; i < a.NumField(); i++ {
			if !semEqual(a.Field(i), b.Field(i)) {
				return false
			}
		}
		return true
	case reflect.Bool:
		return a.Bool() == b.Bool()
	case reflect.Int, reflect.Int8, reflect.Int16, reflect.Int32, reflect.Int64:
		return a.Int() == b.Int()
	case reflect.Uint, reflect.Uint8, reflect.Uint16, reflect.Uint32, reflect.Uint64, reflect.Uintptr:
		return a.Uint() == b.Uint()
	case reflect.Float32, reflect.Float64:
		return a.Float() == b.Float()
	case reflect.String:
		return a.String() == b.String()
	}
	return false
}

func firstDiff(a, b tms20.TileMatrixSet) string {
	if fmt.Sprintf("%T", a.CRS) != fmt.Sprintf("%T", b.CRS) {
		return fmt.Sprintf("crs type %T -> %T", a.CRS, b.CRS)
	}
	if !semEqual(reflect.ValueOf(a.CRS), reflect.ValueOf(b.CRS)) {
		return fmt.Sprintf("crs %+v -> %+v", a.CRS, b.CRS)
	}
	for id, tm := range a.TileMatrices {
		if !semEqual(reflect.ValueOf(tm), reflect.ValueOf(b.TileMatrices[id])) {
			return fmt.Sprintf("tile matrix %d: %+v -> %+v", id, tm, b.TileMatrices[id])
		}
	}
	if len(a.TileMatrices) != len(b.TileMatrices) {
		return fmt.Sprintf("%d -> %d tile matrices", len(a.TileMatrices), len(b.TileMatrices))
	}
	if !reflect.DeepEqual(a.BoundingBox, b.BoundingBox) {
		return fmt.Sprintf("boundingBox %+v -> %+v", a.BoundingBox, b.BoundingBox)
	}
	return "other members differ"
}

// jsonDiff: semantic comparison of JSON values; absent == absent only (no defaulting is assumed).
func jsonDiff(a, b any, path string) string {
	switch x := a.(type) {
	case map[string]any:
		y, ok := b.(map[string]any)
		if !ok {
			return fmt.Sprintf("%s: object vs %s", path, kindOf(b))
		}
		for k, v := range x {
			w, ok := y[k]
			if !ok {
				return fmt.Sprintf("%s.%s missing after re-encoding", path, k)
			}
			if d := jsonDiff(v, w, path+"."+k); d != "" {
				return d
			}
		}
		for k := range y {
			if _, ok := x[k]; !ok {
				return fmt.Sprintf("%s.%s appears after re-encoding", path, k)
			}
		}
	case []any:
		y, ok := b.([]any)
		if !ok || len(x) != len(y) {
			return fmt.Sprintf("%s: array differs", path)
		}
		for i := range x {
			if d := jsonDiff(x[i], y[i], fmt.Sprintf("%s[%d]", path, i)); d != "" {
				return d
			}
		}
	default:
		if !reflect.DeepEqual(a, b) {
			return fmt.Sprintf("%s: %v vs %v", path, a, b)
		}
	}
	return ""
}

func genDocCase(rng *fw.Rng, idx int64) *docCase {
	if idx < int64(len(c16Bases)) {
		name := c16Bases[idx]
		d, err := baseDoc(name)
		if err != nil {
			return nil
		}
		b, _ := json.Marshal(d)
		if name != "Synthetic" {
			b, _ = readFileBytes(repoTMSPath(name))
		}
		return &docCase{Base: name, Doc: string(b)}
	}
	name := fw.Pick(rng, c16Bases)
	d, err := baseDoc(name)
	if err != nil {
		return nil
	}
	// shrink the tile matrix list sometimes (smaller documents, same structure)
	if m, ok := d.(map[string]any); ok && rng.Chance(2, 3) {
		if l, ok := m["tileMatrices"].([]any); ok && len(l) > 3 {
			m["tileMatrices"] = l[:2+rng.Intn(2)]
		}
	}
	dc := &docCase{Base: name}
	n := 1 + rng.Intn(3)
	for i := 0; i < n; i++ {
		var desc string
		func() {
			defer func() {
				if r := recover(); r != nil {
					desc = ""
				}
			}()
			d, desc = mutate(rng, d)
		}()
		if desc != "" {
			dc.Muts = append(dc.Muts, desc)
		}
	}
	if len(dc.Muts) == 0 {
		dc.Muts = []string{"(no-op)"}
	}
	b, _ := json.Marshal(d)
	dc.Doc = string(b)
	dc.Class = demandedReject(d)
	return dc
}

// judgeText: malformed at the level of the text (not a single JSON value): through json.Unmarshal and through the
// file loader LoadJSONTileMatrixSet. TextCase.Text is what is decoded; Valid says whether it is one complete JSON value.
type textCase struct {
	Base  string `json:"base"`
	How   string `json:"text_defect"`
	Text  string `json:"text"`
	Valid bool   `json:"text_is_one_json_value"`
}

func genTextCase(rng *fw.Rng, dc *docCase) *textCase {
	doc := strings.TrimRight(dc.Doc, " \t\r\n")
	tc := &textCase{Base: dc.Base + " / " + strings.Join(dc.Muts, "; ")}
	switch rng.Intn(6) {
	case 0:
		tc.How, tc.Text, tc.Valid = "unchanged (control)", dc.Doc+"\n \n", true
	case 1:
		j := fw.Pick(rng, []string{"}", "]", "garbage", "<<<<<<< HEAD", "0", "null", "\"x\"", ",", "{}"})
		tc.How, tc.Text = "trailing "+j, doc+fw.Pick(rng, []string{"", "\n", " "})+j
	case 2:
		tc.How, tc.Text = "document written twice", doc+"\n"+doc
	case 3:
		p := 1 + rng.Intn(len(doc)-1)
		tc.How, tc.Text = fmt.Sprintf("truncated after %d of %d bytes", p, len(doc)), doc[:p]
	case 4: // the top-level object closed too early: the rest of the members follow the object
		idx := []int{}
		depth := 0
		inStr, esc := false, false
		for i := 0; i < len(doc); i++ {
			ch := doc[i]
			switch {
			case esc:
				esc = false
			case inStr && ch == '\\':
				esc = true
			case ch == '"':
				inStr = !inStr
			case inStr:
			case ch == '{' || ch == '[':
				depth++
			case ch == '}' || ch == ']':
				depth--
			case ch == ',' && depth == 1:
				idx = append(idx, i)
			}
		}
		if len(idx) == 0 {
			return nil
		}
		p := fw.Pick(rng, idx)
		tc.How, tc.Text = "top-level object closed early", doc[:p]+"}"+doc[p:]
	default:
		tc.How, tc.Text = "leading junk", fw.Pick(rng, []string{"x", "}", "// comment\n", "\ufeff"})+doc
	}
	return tc
}

func judgeText(c *fw.Ctx, tc *textCase) {
	cj, _ := json.Marshal(tc)
	c.Rec.SetCurrent(cj)
	c.Rec.Eval()
	var v1, v2 tms20.TileMatrixSet
	var err1, err2 error
	var pan any
	func() {
		defer func() { pan = recover() }()
		err1 = json.Unmarshal([]byte(tc.Text), &v1)
	}()
	if pan != nil {
		c.Rec.Violation("decode-panics", "text:"+tc.How, fmt.Sprintf("json.Unmarshal of a text with the defect %q (%s) panicked: %v", tc.How, tc.Base, pan), cj, nil)
		return
	}
	path := filepath.Join(c.Tmp, "c16_text.json")
	if err := os.WriteFile(path, []byte(tc.Text), 0o644); err != nil {
		c.Rec.Note(err.Error())
		return
	}
	func() {
		defer func() { pan = recover() }()
		v2, err2 = tms20.LoadJSONTileMatrixSet(path)
	}()
	if pan != nil {
		c.Rec.Violation("decode-panics", "file:"+tc.How, fmt.Sprintf("LoadJSONTileMatrixSet of a file with the defect %q (%s) panicked: %v", tc.How, tc.Base, pan), cj, nil)
		return
	}
	c.Rec.Count("text_level_cases")
	c.Rec.NonTrivial(fw.Hash64([]byte(tc.Text)))
	if !tc.Valid {
		c.Rec.Count("text_defect:" + strings.SplitN(tc.How, " ", 2)[0])
		if err1 == nil {
			c.Rec.Violation("malformed-document-accepted", "", fmt.Sprintf("json.Unmarshal accepts a text that is not one JSON value (%s; %s)", tc.How, tc.Base), cj, nil)
		}
		if err2 == nil {
			c.Rec.Violation("malformed-document-accepted", "", fmt.Sprintf("LoadJSONTileMatrixSet accepts a file that is not one JSON value (%s; %s)", tc.How, tc.Base), cj, nil)
		}
		return
	}
	// control: the file loader and json.Unmarshal agree on a well-formed text
	switch {
	case (err1 == nil) != (err2 == nil):
		c.Rec.Violation("file-loader-disagrees", "", fmt.Sprintf("the same text: json.Unmarshal err=%v, LoadJSONTileMatrixSet err=%v (%s)", err1, err2, tc.Base), cj, nil)
	case err1 == nil && !semEqual(reflect.ValueOf(v1), reflect.ValueOf(v2)):
		c.Rec.Violation("file-loader-disagrees", "", fmt.Sprintf("the same text decodes to different values through json.Unmarshal and LoadJSONTileMatrixSet: %s (%s)", firstDiff(v1, v2), tc.Base), cj, nil)
	}
	c.Rec.Count("text_level_controls")
}

// judgeReplaced: a file is loaded, then replaced by ANOTHER document of the same length, the same modification time and the
// same CRC-32 (twelve characters of its title are solved for), and loaded again from the same path: the loader must return
// what the new content decodes to (or its error), not what it remembers. Catches any cache keyed by path, size, time or a
// weak checksum.
func judgeReplaced(c *fw.Ctx, dc *docCase) {
	var mb map[string]any
	if json.Unmarshal([]byte(dc.Doc), &mb) != nil || dc.Base == "" {
		return
	}
	base, err := loadDoc(dc.Base)
	if err != nil {
		return
	}
	ma := cloneDoc(base)
	mb["title"], ma["title"] = "@@@@@@@@@@@@", "first"
	ta, _ := json.Marshal(ma)
	tb, _ := json.Marshal(mb)
	if d := len(tb) - len(ta); d > 0 {
		ma["title"] = "first" + strings.Repeat("x", d)
	} else if d < 0 {
		mb["title"] = "@@@@@@@@@@@@" + strings.Repeat("y", -d)
	}
	ta, _ = json.Marshal(ma)
	tb, _ = json.Marshal(mb)
	pad := bytes.Index(tb, []byte("@@@@@@@@@@@@"))
	if pad < 0 || len(ta) != len(tb) {
		return
	}
	tb, ok := forceCRC32(tb, pad, crc32.ChecksumIEEE(ta))
	if !ok || bytes.Equal(ta, tb) {
		c.Rec.Count("skip:crc_system_singular")
		return
	}
	cj, _ := json.Marshal(map[string]any{"replaced_file": true, "first": string(ta), "second": string(tb)})
	c.Rec.SetCurrent(cj)
	c.Rec.Eval()
	path := filepath.Join(c.Tmp, "c16_replaced.json")
	when := time.Unix(1750000000, 0)
	if os.WriteFile(path, ta, 0o644) != nil || os.Chtimes(path, when, when) != nil {
		return
	}
	var want, got tms20.TileMatrixSet
	var errWant, errGot, errFirst error
	var pan any
	func() {
		defer func() { pan = recover() }()
		_, errFirst = tms20.LoadJSONTileMatrixSet(path)
		if os.WriteFile(path, tb, 0o644) != nil || os.Chtimes(path, when, when) != nil {
			panic("harness: cannot replace the file")
		}
		got, errGot = tms20.LoadJSONTileMatrixSet(path)
		errWant = json.Unmarshal(tb, &want)
	}()
	c.Rec.Count("file_replaced_by_a_document_of_equal_length_mtime_and_crc32")
	c.Rec.NonTrivial(fw.Hash64(tb))
	switch {
	case pan != nil:
		c.Rec.Violation("decode-panics", "replaced", fmt.Sprintf("loading a replaced file panicked: %v", pan), cj, nil)
	case errFirst != nil:
		c.Rec.Note("first document did not load: " + errFirst.Error())
	case (errWant == nil) != (errGot == nil):
		c.Rec.Violation("file-loader-returns-stale-document", "", fmt.Sprintf("%s: the file was replaced by another document (same length, modification time and CRC-32; %s); json.Unmarshal of the new content: err=%v, LoadJSONTileMatrixSet of the same path: err=%v", dc.Base, strings.Join(dc.Muts, "; "), errWant, errGot), cj, nil)
	case errWant == nil && !semEqual(reflect.ValueOf(want), reflect.ValueOf(got)):
		c.Rec.Violation("file-loader-returns-stale-document", "", fmt.Sprintf("%s: the file was replaced by another document (same length, modification time and CRC-32; %s) but LoadJSONTileMatrixSet returns a value that differs from what the new content decodes to: %s", dc.Base, strings.Join(dc.Muts, "; "), firstDiff(want, got)), cj, nil)
	}
}

func init() {
	fw.Register(&fw.Prop{
		ID: "C16", Cases: tierN(80000, 2000000),
		Run: func(c *fw.Ctx) {
			dc := genDocCase(c.Rng, c.Idx)
			if dc == nil {
				c.Rec.Count("skipped:gen")
				return
			}
			judgeDoc(c, dc)
			if c.Idx%10 == 3 {
				if tc := genTextCase(c.Rng, dc); tc != nil {
					judgeText(c, tc)
				}
			}
			if c.Idx%20 == 7 {
				judgeReplaced(c, dc)
			}
			if c.Idx%2000 < 16 { // each worker, every 2000 cases
				checkEmbeddedStillOriginal(c)
			}
		},
		Replay: func(c *fw.Ctx, raw json.RawMessage) {
			var rp struct {
				Replaced      bool `json:"replaced_file"`
				First, Second string
			}
			if json.Unmarshal(raw, &rp) == nil && rp.Replaced {
				c.Rec.Note("replaced-file cases are re-run by the check itself (they need two writes to one path); see the two documents of the case")
				return
			}
			var tc textCase
			if json.Unmarshal(raw, &tc) == nil && tc.How != "" {
				judgeText(c, &tc)
				return
			}
			var dc docCase
			if err := json.Unmarshal(raw, &dc); err != nil {
				c.Rec.Note(err.Error())
				return
			}
			var d any
			if json.Unmarshal([]byte(dc.Doc), &d) == nil {
				dc.Class = demandedReject(d)
			}
			judgeDoc(c, &dc)
		},
		Rule: "the 14 built-in documents + one synthetic document using every optional member, unmodified and under 1-3 composed structural mutations (delete member, replace by another JSON kind, numeric/string edge values, drop/duplicate/extend array elements, unknown members, CRS swapped among URI string / URI object / wkt / referenceSystem forms); every document that decodes: encode, decode again, DeepEqual of the two values incl. dynamic CRS type, second encoding byte-identical; unmodified documents: re-encoded JSON semantically equal to the file; documents in a demanded-reject class (independent predicate on the JSON tree: crs or tileMatrices missing/null/wrong kind/empty, typed member of another JSON kind, sizes/cell size/scale <= 0, non-integer id) must return an error; no document may panic; every 10th case additionally as TEXT that is not one JSON value (trailing junk, the document twice, truncated, top-level object closed early, leading junk), through json.Unmarshal and through the file loader LoadJSONTileMatrixSet: both must return an error, and on well-formed text the two must agree; every 20th case: a file is loaded, replaced by the document of the case with the same length, modification time and CRC-32 (twelve title characters are solved for) and loaded again from the same path - the loader must return what the new content decodes to; history clauses: after a sibling document with the same crs uri in the other form (string <-> object) is decoded, the first value must still encode as before, and the embedded built-in sets handed out by LoadEmbeddedTileMatrixSet must still re-encode to their documents after thousands of other decodes in the same process; non-trivial = document that decodes or falls in a demanded class; distinct by document text",
		Required: func(string) []string {
			return []string{"history:sibling_documents_decoded_between_encodings", "history:embedded_sets_re-encoded_after_other_decodes", "decoded", "rejected_with_error", "demanded_reject_documents", "original_documents_compared", "crs_form:URICRS", "crs_form:URICRS-as-string", "crs_form:WKTCRS", "crs_form:ReferenceSystemCRS", "text_level_cases", "text_level_controls", "file_replaced_by_a_document_of_equal_length_mtime_and_crc32", "text_defect:trailing", "text_defect:truncated", "text_defect:top-level", "text_defect:document"}
		},
		MinNonTriv:  1000,
		Assumptions: []string{"accept/reject is demanded only for the classes the statement names; null for an optional member, fractional sizes, duplicate ids, short arrays and unknown members carry no demand", "value equality = deep equality of tms20.TileMatrixSet incl. unexported CRS fields, nil and empty lists/maps being equal"},
		Technique:   "runtime monitor: decode/encode round-trip oracle over structurally mutated documents",
	})
}
