package main

import (
	"encoding/json"
	"fmt"
	"reflect"

	"verifharness/fw"
	"verifharness/grid"
)

var c08Sets = []SetChoice{
	{Spec: dy(4, 16, 0), Bases: []int{0}, Span: 5},
	{Spec: dy(4, 16, 0), Bases: []int{0}, Span: 5},
	{Spec: dy(3, 16, -8), Bases: []int{0}, Span: 4},
	{Spec: grid.Spec{Depth: 4, Cell: 0.5, Origin: 100, TileWidth: 256}, Bases: []int{0}, Span: 5},
	{Spec: grid.Spec{Name: "NetherlandsRDNewQuad"}, Bases: []int{8, 10, 12}, Span: 5},
	{Spec: dy(27, 0.03125, 0), Bases: []int{22, 23}, Span: 5}, // levels 26..31, evenly dividing
	{Spec: dy(28, 0.015625, 0), Bases: []int{24}, Span: 5}, // levels 28..32: the deepest level the keys can address, evenly dividing
	{Spec: grid.Spec{Name: "WebMercatorQuad"}, Bases: []int{10}, Span: 4}, // not round: skipped and counted (guards the oracle's roundness test)
}

func judgeC08(c *fw.Ctx, sc *SnapCase) {
	cj := sc.JSON()
	c.Rec.SetCurrent(cj)
	o, err := observe(sc)
	if err != nil {
		c.Rec.Count("skipped:observe-error")
		return
	}
	c.Rec.Eval()
	if !o.Req.Round {
		c.Rec.Count("skipped:grid-not-round-at-deepest-requested-level")
		return
	}
	countSet(c.Rec, sc)
	c.Rec.Count(fmt.Sprintf("requested_ids:%d", len(sc.IDs)))
	if o.Panic != nil {
		c.Rec.Abort(fmt.Sprintf("snap.SnapPolygon panicked (%s at %s); judged by C06", o.PanicText, o.PanicSite), cj)
		return
	}
	for z := range o.Got {
		if !containsInt(sc.IDs, z) {
			c.Rec.Violation("foreign-key", "", fmt.Sprintf("result has key %d, requested were %v", z, sc.IDs), cj, map[string]any{"result": o.Got})
		}
	}
	present, absent := 0, 0
	for _, z := range sc.IDs {
		alone, pan := callSnap(sc, []int{z}, sc.GeomPolygon(), sc.Reverse)
		c.Rec.Count("comparisons")
		if pan != nil {
			c.Rec.Abort(fmt.Sprintf("snap.SnapPolygon panicked when tile matrix %d was requested alone: %v", z, pan), cj)
			continue
		}
		for k := range alone {
			if k != z {
				c.Rec.Violation("foreign-key", "", fmt.Sprintf("result has key %d, requested was only %d", k, z), cj, map[string]any{"result": alone})
			}
		}
		a, okA := alone[z]
		t, okT := o.Got[z]
		if okT {
			present++
		} else {
			absent++
		}
		if okA != okT || !reflect.DeepEqual(a, t) {
			c.Rec.Violation("depends-on-other-tile-matrices", "", fmt.Sprintf("tile matrix %d: requested alone -> present=%v %v; requested together with %v -> present=%v %v", z, okA, a, sc.IDs, okT, t), cj,
				map[string]any{"tile_matrix": z, "alone": a, "together": t, "requested": sc.IDs})
		}
	}
	if len(sc.IDs) >= 2 {
		c.Rec.Count("cases_with_2+_ids")
		if present > 0 && absent > 0 {
			c.Rec.Count("collapses_at_some_but_not_all_matrices")
			c.Rec.NonTrivial(fw.Hash64(cj))
		} else {
			split := false
			for _, pgs := range o.Got {
				if len(pgs) > 1 {
					split = true
				}
			}
			if split {
				c.Rec.Count("splits_or_collapsed_parts_at_some_matrix")
				c.Rec.NonTrivial(fw.Hash64(cj))
			}
		}
	}
	if c.Rec.WantSample() {
		c.Rec.Sample(map[string]any{"case": sc, "result_together": o.Got})
	}
}

func init() {
	pr := &Profile{Sets: c08Sets, Kinds: allKinds, MinIDs: 1, Huge: true, Zoo: true, Repeat: true, TileWidth: true}
	fw.Register(&fw.Prop{
		ID: "C08", Cases: tierN(150000, 2000000),
		Run: func(c *fw.Ctx) {
			sc, why := genSnapCase(c.Rng, pr)
			if sc == nil {
				c.Rec.Count("skipped:" + why)
				return
			}
			judgeC08(c, sc)
		},
		Replay: func(c *fw.Ctx, raw json.RawMessage) {
			var sc SnapCase
			if err := json.Unmarshal(raw, &sc); err != nil {
				c.Rec.Note(err.Error())
				return
			}
			judgeC08(c, &sc)
		},
		Rule: "all generators (valid or not), random subsets S (1-5 ids, shuffled) of round grids (dyadic sets with 4-5 matrices, NetherlandsRDNewQuad ids 8-16; WebMercatorQuad draws are recognised as not round by the oracle and skipped); for every z in S: SnapPolygon(p,S)[z] deep-equal to SnapPolygon(p,{z})[z], presence equal, result keys within the request; non-trivial = |S| >= 2 and the polygon collapses at some but not all matrices or splits at some matrix",
		Required: func(string) []string {
			return []string{"comparisons", "cases_with_2+_ids", "collapses_at_some_but_not_all_matrices", "splits_or_collapsed_parts_at_some_matrix", "skipped:grid-not-round-at-deepest-requested-level"}
		},
		MinNonTriv:  500,
		Assumptions: []string{"roundness decided by the oracle: integer span mod 2^deepest level == 0"},
		Technique:   "runtime monitor: metamorphic equality alone vs together",
	})
}
