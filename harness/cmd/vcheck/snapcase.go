package main

import (
	"encoding/json"
	"fmt"
	"math"
	"math/big"
	"runtime/debug"
	"slices"
	"strings"
	"sync"

	"verifharness/fw"
	"verifharness/gen"
	"verifharness/grid"
	"verifharness/oracle"

	"github.com/go-spatial/geom"
	"github.com/pdok/texel/pointindex"
	"github.com/pdok/texel/snap"
	"github.com/pdok/texel/verifhook"
)

type P = oracle.P
type PixKey = oracle.PixKey

// SnapCase is one concrete call of snap.SnapPolygon.
type SnapCase struct {
	TMS           grid.Spec      `json:"tms"`
	IDs           []int          `json:"ids"`
	Keep          bool           `json:"keep"`
	IgnoreOutside bool           `json:"ignore_outside"`
	Reverse       bool           `json:"reverse"`
	Poly          [][][2]float64 `json:"poly"`
	Kind          string         `json:"kind,omitempty"`
	Flush         bool           `json:"flush,omitempty"` // generator note: placed flush with a border of the grid
}

func (c *SnapCase) JSON() []byte {
	b, _ := json.Marshal(c)
	return b
}

func (c *SnapCase) Config() snap.Config {
	return snap.Config{KeepPointsAndLines: c.Keep, IgnoreOutsideGrid: c.IgnoreOutside, ReverseWindingOrder: c.Reverse}
}

func (c *SnapCase) GeomPolygon() geom.Polygon {
	poly := make(geom.Polygon, len(c.Poly))
	for i, r := range c.Poly {
		poly[i] = append([][2]float64{}, r...)
	}
	return poly
}

var (
	setCache   = map[string]*grid.Set{}
	setCacheMu sync.Mutex
)

func getSet(s grid.Spec) (*grid.Set, error) {
	key := s.String()
	setCacheMu.Lock()
	defer setCacheMu.Unlock()
	if gs, ok := setCache[key]; ok {
		return gs, nil
	}
	gs, err := grid.NewSet(s)
	if err != nil {
		return nil, err
	}
	setCache[key] = gs
	return gs, nil
}

// SetChoice: a tile matrix set and the id windows to request from.
type SetChoice struct {
	Spec  grid.Spec
	Bases []int // lowest id of a window of up to 3 consecutive ids
	Span  int   // ids per window (default 3)
}

func dy(depth int, cell, origin float64) grid.Spec {
	return grid.Spec{Depth: depth, Cell: cell, Origin: origin}
}

var (
	setDyadic2   = SetChoice{Spec: dy(2, 16, 0), Bases: []int{0}}
	setDyadic4   = SetChoice{Spec: dy(4, 16, 0), Bases: []int{0, 1, 2}}
	setDyadicNeg = SetChoice{Spec: dy(3, 16, -8), Bases: []int{0, 1}}
	// a deep, evenly dividing dyadic set: extent 2^22 units, tile 1, ids up to 27 = level 31 (2^31 pixels per axis)
	setDyadicDeep = SetChoice{Spec: dy(27, 0.03125, 0), Bases: []int{22, 23, 24, 25}}
	// the same extent one level deeper: ids up to 28 = level 32, the deepest level the Z-order keys can address (2^32 pixels per
	// axis, pixel 2^-10 units: still an exact integer number of 1e-10 units); pixel addresses use all 32 bits, keys all 64
	setDyadic32   = SetChoice{Spec: dy(28, 0.015625, 0), Bases: []int{26, 27, 28}}
	setDyadic256  = SetChoice{Spec: grid.Spec{Depth: 3, Cell: 0.5, Origin: 100, TileWidth: 256}, Bases: []int{0, 1}}
	setRDdeep     = SetChoice{Spec: grid.Spec{Name: "NetherlandsRDNewQuad"}, Bases: []int{9, 10, 11, 12}}
	setRDshallow  = SetChoice{Spec: grid.Spec{Name: "NetherlandsRDNewQuad"}, Bases: []int{3}}
	setWMdeep     = SetChoice{Spec: grid.Spec{Name: "WebMercatorQuad"}, Bases: []int{12, 13, 14}}
	setWMshallow  = SetChoice{Spec: grid.Spec{Name: "WebMercatorQuad"}, Bases: []int{5}}
	setETRS       = SetChoice{Spec: grid.Spec{Name: "EuropeanETRS89_LAEAQuad"}, Bases: []int{8, 10}}
)

// Sets whose corners are not kind to the float -> integer conversion, found by a fixed search at start-up:
// translated copies of NetherlandsRDNewQuad and small dyadic sets with two-decimal origins, one per class of
// (x span - nominal span, y span - x span) in integer units; plus sets far from the origin of the CRS, where
// sums of two ordinates no longer fit in 63 bits although every ordinate does.
var (
	zooOnce    sync.Once
	zooChoices []SetChoice
	zooClass   = map[string]string{} // Spec.String() -> class
)

func gridZoo() []SetChoice {
	zooOnce.Do(func() {
		rng := fw.NewRng(0x5eed2026)
		twoDec := func(lim int64) float64 { return float64(rng.Int63n(2*lim*100)-lim*100) / 100 }
		type kind struct {
			name  string
			mk    func() grid.Spec
			base  grid.Spec
			bases []int
		}
		kinds := []kind{
			{"rd", func() grid.Spec {
				return grid.Spec{Name: "NetherlandsRDNewQuad", ShiftX: twoDec(400000), ShiftY: twoDec(400000)}
			}, grid.Spec{Name: "NetherlandsRDNewQuad"}, []int{9, 10, 11, 12}},
			{"dyadic", func() grid.Spec {
				oy := twoDec(9000)
				return grid.Spec{Depth: 4, Cell: 16, Origin: twoDec(9000), OriginY: &oy, TopLeft: rng.Bool()} // either corner convention
			}, dy(4, 16, 0), []int{0, 1, 2}},
		}
		for _, k := range kinds {
			ref, err := getSet(k.base)
			if err != nil {
				continue
			}
			seen := map[string]bool{}
			for try := 0; try < 4000 && len(seen) < 12; try++ {
				sp := k.mk()
				gs, err := grid.NewSet(sp)
				if err != nil {
					continue
				}
				dx, dyx := gs.Span-ref.Span, gs.SpanY-gs.Span
				if dx < -1 || dx > 1 || dyx < -2 || dyx > 2 {
					continue
				}
				cls := fmt.Sprintf("%s:xspan%+d,yspan-xspan%+d", k.name, dx, dyx)
				if seen[cls] {
					continue
				}
				seen[cls] = true
				zooClass[sp.String()] = cls
				zooChoices = append(zooChoices, SetChoice{Spec: sp, Bases: k.bases})
			}
		}
		// twins: sets whose documents agree in id, point-of-origin numbers (and pointer), corner, root cell size and tile size
		// but mean different grids: the same two origin numbers under the other axis order, and a root matrix of 2x2 tiles.
		// A process that has seen one twin must not hand its grid to the other.
		ta, tb := 1234.25, -777.5
		for _, sp := range []grid.Spec{
			{Depth: 4, Cell: 16, Origin: ta, OriginY: &tb},
			{Depth: 4, Cell: 16, Origin: tb, OriginY: &ta, AxesXY: true},
			{Depth: 3, Cell: 32, Origin: ta, OriginY: &tb, RootMatrix: 2},
		} {
			if gs, err := grid.NewSet(sp); err == nil && gs.BL[0] == sp.Origin && gs.BL[1] == *sp.OriginY {
				zooClass[sp.String()] = "twin-sets(same numbers, another grid)"
				zooChoices = append(zooChoices, SetChoice{Spec: sp, Bases: []int{0, 1}}, SetChoice{Spec: sp, Bases: []int{0, 1}})
			}
		}
		// informative members varied: a declared boundingBox anchored in the point of origin whose far corner is slightly off,
		// orderedAxes spelled differently (the CRS is authoritative). The oracle facts are those of the plain built-in set.
		for _, sc := range []SetChoice{
			{Spec: grid.Spec{Name: "NetherlandsRDNewQuad", Meta: 1, MetaSlack: 0.001}, Bases: []int{9, 10, 11, 12}},
			{Spec: grid.Spec{Name: "WebMercatorQuad", Meta: 1, MetaSlack: -0.0003}, Bases: []int{12, 13, 14}},
			{Spec: grid.Spec{Name: "EuropeanETRS89_LAEAQuad", Meta: 1, MetaSlack: 0.3}, Bases: []int{8, 10}},
			{Spec: grid.Spec{Name: "NetherlandsRDNewQuad", Meta: 2, MetaAxes: []string{"Easting", "Northing"}}, Bases: []int{9, 10, 11, 12}},
			{Spec: grid.Spec{Name: "WebMercatorQuad", Meta: 2, MetaAxes: []string{"Longitude", "Latitude"}}, Bases: []int{12, 13, 14}},
			{Spec: grid.Spec{Name: "EuropeanETRS89_LAEAQuad", Meta: 2, MetaAxes: []string{"Lon", "Lat"}}, Bases: []int{8, 10}},
			{Spec: grid.Spec{Name: "NetherlandsRDNewQuad", Meta: 3, MetaSlack: -0.2, MetaAxes: []string{"lat", "lon"}}, Bases: []int{9, 10, 11, 12}},
		} {
			if _, err := grid.NewSet(sc.Spec); err == nil {
				zooClass[sc.Spec.String()] = "informative-members-varied"
				zooChoices = append(zooChoices, sc)
			}
		}
		noy := -3e8
		for _, sc := range []SetChoice{
			{Spec: grid.Spec{Depth: 4, Cell: 16, Origin: 6e8}, Bases: []int{0, 1, 2}},
			{Spec: grid.Spec{Depth: 4, Cell: 16, Origin: -7e8, OriginY: &noy}, Bases: []int{0, 1, 2}},
			{Spec: grid.Spec{Depth: 14, Cell: 8, Origin: 4.4e8, TileWidth: 256}, Bases: []int{8, 9, 10, 11}}, // sums of two ordinates pass 2^63 in the right/upper part only
		} {
			zooClass[sc.Spec.String()] = "far-from-crs-origin"
			zooChoices = append(zooChoices, sc)
			if sc.Spec.Depth == 14 { // the set in which only part of the extent is beyond 2^62: more weight
				zooChoices = append(zooChoices, sc, sc)
			}
		}
		// wide extents: a root extent wider than 2^62 integer units (4.6e8 CRS units; every ordinate still fits): products of a
		// pixel address and a pixel size pass 2^63 in the far part of the extent although every coordinate fits (bases deep enough
		// for a window of 100 pixels to stay below 2^63 units: the generators measure windows in pixels)
		wo := -4e8
		for _, sc := range []SetChoice{
			{Spec: grid.Spec{Depth: 20, Cell: 512, Origin: -268435456}, Bases: []int{6, 12, 16}},
			{Spec: grid.Spec{Depth: 12, Cell: 131072, Origin: -1.5e8, OriginY: &wo}, Bases: []int{4, 8}},
		} {
			if _, err := grid.NewSet(sc.Spec); err == nil {
				zooClass[sc.Spec.String()] = "wide-extent(>2^62 units)"
				zooChoices = append(zooChoices, sc, sc)
			}
		}
	})
	return zooChoices
}

// non-power-of-two tile widths (legal for the quadtree validation; the tool takes floor(log2)): only for the properties
// whose oracle does not need the vector-tile meaning of a pixel
var tileWidthSets = []SetChoice{
	{Spec: grid.Spec{Depth: 3, Cell: 16, Origin: 0, TileWidth: 250}, Bases: []int{0, 1}},
	{Spec: grid.Spec{Depth: 4, Cell: 1, Origin: -50, TileWidth: 100}, Bases: []int{0, 1, 2}},
	{Spec: grid.Spec{Depth: 2, Cell: 0.5, Origin: 100, TileWidth: 384}, Bases: []int{0}},
	{Spec: grid.Spec{Depth: 4, Cell: 8, Origin: 0, TileWidth: 3}, Bases: []int{0, 1, 2}},
}

var defaultSets = []SetChoice{setDyadic2, setDyadic2, setDyadic2, setDyadic4, setDyadicNeg, setDyadic256, setDyadicDeep, setDyadic32, setRDdeep, setRDdeep, setRDshallow, setWMdeep, setWMdeep, setWMshallow, setETRS}

// Profile steers the generation of snapping cases for one property.
type Profile struct {
	Sets      []SetChoice
	Kinds     []string
	ValidOnly bool
	RoundOnly bool // only grids whose extent divides evenly at the deepest requested level
	AllIDs    bool // request the whole window instead of a random subset
	NoBig     bool // never draw the large generator
	Huge      bool // draw the huge generator (sheet with hundreds of holes, or the zipper) in 1 of HugeRate (default 8000) cases
	HugeRate  int
	MinIDs    int
	Repeat    bool // 1 case in 10 stores a vertex twice or three times in a row
	Zoo       bool // 1 case in 6 on a set of gridZoo()
	TileWidth bool // 1 case in 15 on a set with a tile width that is not a power of two
}

// countSet records the set of a case and, for zoo sets, its class.
func countSet(rec *fw.Recorder, sc *SnapCase) {
	k := sc.TMS.String()
	rec.Count("set:" + k)
	gridZoo()
	if cls, ok := zooClass[k]; ok {
		rec.Count("grid-class:" + cls)
	}
	if sc.Flush {
		rec.Count("placement:flush-with-a-border-of-the-grid")
	}
	kind := sc.Kind
	if strings.HasSuffix(kind, "+repeated-point") {
		rec.Count("input_with_repeated_points")
		kind = strings.TrimSuffix(kind, "+repeated-point")
	}
	switch kind {
	case "huge", "zipper", "big", "nest", "moat", "lobes", "longflat", "saw":
		rec.Count("kind:" + kind)
	}
	if sc.TMS.Name == "" && sc.TMS.TileWidth&(sc.TMS.TileWidth-1) != 0 {
		rec.Count("grid-class:tile-width-not-a-power-of-two")
	}
}

var validKinds = []string{"star", "star", "comb", "sliver", "angle", "rectholes", "spiky", "spiky", "grow", "grow", "border", "angle", "moat", "nest", "lobes", "longflat", "saw"}
var allKinds = []string{"star", "comb", "sliver", "angle", "rectholes", "spiky", "grow", "junk", "junk", "motif", "motif", "border", "moat", "nest", "lobes", "saw"}

// genSnapCase draws one case; returns nil (and the reason) when the draw has to be skipped.
func genSnapCase(rng *fw.Rng, pr *Profile) (*SnapCase, string) {
	sc := fw.Pick(rng, pr.Sets)
	if pr.Zoo && rng.Chance(1, 6) {
		if zoo := gridZoo(); len(zoo) > 0 {
			sc = fw.Pick(rng, zoo)
		}
	}
	if pr.TileWidth && rng.Chance(1, 15) {
		sc = fw.Pick(rng, tileWidthSets)
	}
	gs, err := getSet(sc.Spec)
	if err != nil {
		return nil, "set:" + err.Error()
	}
	span := sc.Span
	if span == 0 {
		span = 3
	}
	base := fw.Pick(rng, sc.Bases)
	var ids []int
	for id := base; id < base+span; id++ {
		if _, ok := gs.TMS.TileMatrices[id]; !ok {
			continue
		}
		if pr.AllIDs || rng.Bool() {
			ids = append(ids, id)
		}
	}
	for len(ids) < max(pr.MinIDs, 1) {
		id := base + rng.Intn(span)
		if _, ok := gs.TMS.TileMatrices[id]; ok && !containsInt(ids, id) {
			ids = append(ids, id)
		}
	}
	if rng.Chance(1, 25) { // a request may name a tile matrix twice
		ids = append(ids, ids[rng.Intn(len(ids))])
	}
	// requested in random order
	perm := rng.Perm(len(ids))
	shuffled := make([]int, len(ids))
	for i, j := range perm {
		shuffled[i] = ids[j]
	}
	ids = shuffled
	req := gs.Request(ids)
	if pr.RoundOnly && !req.Round {
		return nil, "not-round"
	}
	pix := req.ResD
	q := pix / 4
	if rng.Chance(1, 6) {
		q = pix / 16 // everything smaller than a pixel: heavy collapse even at the deepest level
	}
	if q == 0 {
		return nil, "q=0"
	}
	kind := fw.Pick(rng, pr.Kinds)
	if kind == "saw" { // teeth of 1/20 pixel need a finer lattice
		q = pix / 64
		if q == 0 {
			return nil, "q=0"
		}
	}
	if !pr.NoBig && rng.Chance(1, 40) {
		kind = "big" // structured / large inputs at a low rate (they cost 50-500x a small case)
	}
	hugeRate := 8000
	if pr.HugeRate > 0 {
		hugeRate = pr.HugeRate
	}
	if pr.Huge && rng.Chance(1, hugeRate) {
		kind = "huge" // thousands of vertices, hundreds of rings: a handful per run
		if rng.Bool() {
			kind = "zipper" // thousands of vertices in two rings
		}
	}
	W := int64(12 + rng.Intn(40))
	var lp gen.Poly
	var rings [][]P
	for try := 0; ; try++ {
		if kind == "longflat" {
			lp = gen.LongFlat(rng, int(req.D))
			break
		}
		lp = gen.ByName(kind, rng, W)
		if !pr.ValidOnly || latticeValid(lp) {
			break
		}
		if try >= 6 {
			return nil, "invalid"
		}
	}
	minx, miny, maxx, maxy := lp.Bounds()
	// placement in deepest pixels
	n := int64(1) << req.D
	wpx := (max(maxx, maxy)*q)/pix + 3
	lowpx := -(min(minx, miny) * q / pix) + 1
	if n-wpx-lowpx-2 <= 0 {
		return nil, "window-too-large"
	}
	var px, py int64
	flushed := false
	switch rng.Intn(5) {
	case 4: // next to a self-similar spot of the quadtree: a corner, the middle of a side, or the centre of the extent
		spot := func() int64 {
			switch rng.Intn(3) {
			case 0:
				return lowpx
			case 1:
				return n/2 - rng.Int63n(2)*wpx
			}
			return n - wpx - 1
		}
		px, py = spot(), spot()
	case 0: // anywhere
		px, py = lowpx+rng.Int63n(n-wpx-lowpx), lowpx+rng.Int63n(n-wpx-lowpx)
	case 1: // typical place
		px, py = n/3+rng.Int63n(min(1000, n/4+1)), n/3+rng.Int63n(min(1000, n/4+1))
	default: // window centre on a quadtree boundary of random depth
		d := uint(1 + rng.Intn(int(req.D)))
		cell := int64(1) << (req.D - d)
		kx, ky := 1+rng.Int63n((int64(1)<<d)-1+1), 1+rng.Int63n((int64(1)<<d)-1+1)
		px, py = kx*cell-wpx/2, ky*cell-wpx/2
		if rng.Bool() {
			py = lowpx + rng.Int63n(n-wpx-lowpx)
		}
	}
	px, py = clamp(px, lowpx, n-wpx-1), clamp(py, lowpx, n-wpx-1)
	if rng.Chance(1, 12) && minx >= 0 && miny >= 0 {
		// flush with the border: the extreme vertices lie in the outermost pixel row / column of the grid (pixel 0 or
		// pixel 2^level - 1: addresses with all bits clear or all bits set), on one axis or - in a corner - on both
		flush := func(lo, hi int64) (int64, bool) {
			switch rng.Intn(3) {
			case 0:
				return -(lo * q / pix), true
			case 1:
				// only where the integer grid ends exactly with the extent: on other grids the last pixels lie in the
				// uncovered sliver of known finding KF-GAP, which belongs to C06's sliver generator and its list
				if req.Round && gs.SpanY == gs.Span {
					return n - 1 - (hi*q)/pix, true
				}
			}
			return 0, false
		}
		if v, ok := flush(minx, maxx); ok && v >= 0 {
			px = v
		}
		if v, ok := flush(miny, maxy); ok && v >= 0 {
			py = v
		}
		flushed = true
	}
	var jx, jy int64
	if rng.Chance(1, 4) {
		jx, jy = rng.Int63n(q), rng.Int63n(q)
	}
	rings = make([][]P, len(lp))
	poly := make([][][2]float64, len(lp))
	for i, r := range lp {
		rings[i] = make([]P, len(r))
		fr := make([][2]float64, len(r))
		for j, p := range r {
			ip := P{gs.OX + px*pix + p[0]*q + jx, gs.OY + py*pix + p[1]*q + jy}
			if flushed && (ip[0] < gs.OX || ip[1] < gs.OY || ip[0] >= gs.OX+n*pix || ip[1] >= gs.OY+n*pix) {
				return nil, "flush-outside" // a generator whose bounds are not its lattice bounds: the draw is skipped
			}
			// exact pre-image where float64 has one (|v| < 2^53); otherwise the nearest float: the oracle
			// always reasons about the integers the tool derives from the floats actually passed
			f, _ := grid.ToFloatPoint(ip)
			fr[j] = f
		}
		if rng.Bool() {
			oracle.Reverse(fr)
		}
		poly[i] = fr
	}
	if pr.Repeat && len(poly) > 0 && rng.Chance(1, 10) {
		// repeated points: a vertex stored twice (or three times) in a row, by preference an extreme one
		// (lowest, rightmost, ...: the vertices orientation and containment tests start from), in one or two rings
		for k := 1 + rng.Intn(2); k > 0; k-- {
			ri := rng.Intn(len(poly))
			r := poly[ri]
			if len(r) == 0 {
				continue
			}
			vi := rng.Intn(len(r))
			if rng.Chance(2, 3) {
				ax, sign := rng.Intn(2), float64(1-2*rng.Intn(2))
				for j := range r {
					if d := sign * (r[j][ax] - r[vi][ax]); d < 0 || d == 0 && sign*(r[j][1-ax]-r[vi][1-ax]) > 0 {
						vi = j
					}
				}
			}
			times := 1 + rng.Intn(2)
			nr := append([][2]float64{}, r[:vi+1]...)
			for t := 0; t < times; t++ {
				nr = append(nr, r[vi])
			}
			poly[ri] = append(nr, r[vi+1:]...)
		}
		kind += "+repeated-point"
	}
	c := &SnapCase{TMS: sc.Spec, IDs: ids, Keep: rng.Bool(), Reverse: rng.Chance(1, 4), IgnoreOutside: rng.Chance(1, 4), Poly: poly, Kind: kind, Flush: flushed}
	return c, ""
}

// dropRepeatedPoints removes vertices equal to their predecessor (cyclically); rings keep at least one vertex.
func dropRepeatedPoints(rings [][]P) [][]P {
	out := make([][]P, len(rings))
	changed := false
	for i, r := range rings {
		var nr []P
		for j, p := range r {
			if j > 0 && p == r[j-1] {
				changed = true
				continue
			}
			nr = append(nr, p)
		}
		for len(nr) > 1 && nr[len(nr)-1] == nr[0] {
			nr = nr[:len(nr)-1]
			changed = true
		}
		out[i] = nr
	}
	if !changed {
		return rings
	}
	return out
}

func clamp(v, lo, hi int64) int64 {
	if v < lo {
		return lo
	}
	if v > hi {
		return hi
	}
	return v
}

func containsInt(s []int, v int) bool {
	for _, x := range s {
		if x == v {
			return true
		}
	}
	return false
}

func latticeValid(lp gen.Poly) bool {
	rings := make([][]P, len(lp))
	for i := range lp {
		rings[i] = lp[i]
	}
	return oracle.ValidPolygon(rings)
}

// LevelObs: oracle facts and observed output for one requested tile matrix.
type LevelObs struct {
	Z         int
	G         oracle.Grid
	Facts     oracle.RouteFacts
	Present   bool
	Out       []geom.Polygon
	OutK      [][][]PixKey // polygon -> ring -> pixel keys
	OffCentre []string     // coordinates that are not (within tolerance) a pixel centre
}

// Obs: everything observed and derived for one SnapCase.
type Obs struct {
	Case           *SnapCase
	Set            *grid.Set
	Req            grid.Request
	Rings          [][]P // the tool's integer view of the input, as given
	Norm           [][]P // shell ccw, holes cw
	Valid          bool
	NearDegenerate bool // valid on the integer grid but with a ring area within the float->int conversion noise
	AllInside      bool // every vertex inside the half-open extent
	AllCovered     bool // every vertex inside what the integer grid covers
	Got            map[int][]geom.Polygon
	Panic          any
	PanicText      string
	PanicSite      string
	Ticks          map[string]int
	levels         map[int]*LevelObs
	facts          map[int]*oracle.RouteFacts
	MaxVertices    int
	UIDs           []int // requested ids without repetitions (a request may legally name a tile matrix twice)
	InputModified  bool  // the caller's memory (rings packed in one array with spare capacity) was written to
	kmpChecked     bool
	kmpSame        bool
	kmpNote        string
}

// kmpAsPinned: does every kmpDeduplicate call of this case return exactly what the code pinned at 2260c2f returns for the
// same input (hook H4 + oracle.PinnedKmpDeduplicate)? Only then can an invented edge be the known finding KF-F5; any other
// behaviour of that function is a different defect. The case is run once more with recording on (violations are rare).
func (o *Obs) kmpAsPinned() (same bool, note string) {
	if o.kmpChecked {
		return o.kmpSame, o.kmpNote
	}
	o.kmpChecked = true
	var obs []verifhook.Observation
	func() {
		defer func() { _ = recover() }()
		verifhook.StartObserving()
		defer func() { obs = verifhook.StopObserving() }()
		snap.SnapPolygon(o.Case.GeomPolygon(), o.Set.TMS, append([]int{}, o.Case.IDs...), o.Case.Config())
	}()
	o.kmpSame = true
	for i, ob := range obs {
		if ob.Site != "kmpDeduplicate" {
			continue
		}
		want := oracle.PinnedKmpDeduplicate(ob.In)
		if !slices.Equal(want, ob.Out) {
			o.kmpSame = false
			o.kmpNote = fmt.Sprintf("kmpDeduplicate call %d of %d: for the input %v the pinned code returns %v, this tree returned %v", i+1, len(obs), ob.In, want, ob.Out)
			break
		}
	}
	if o.kmpSame {
		o.kmpNote = fmt.Sprintf("%d kmpDeduplicate calls returned what the pinned code returns", len(obs))
	}
	return o.kmpSame, o.kmpNote
}

const centreTol = 64

// offCentre: is the integer image of a returned coordinate farther from the pixel centre than the float64 round trip explains?
// 64 units up to |ordinate| = 2^58 units (all built-in sets); beyond that (sets far from the CRS origin) two ulps of the ordinate.
func offCentre(cc, ip P) bool {
	for ax := 0; ax < 2; ax++ {
		tol := int64(centreTol)
		v := math.Abs(float64(cc[ax]))
		if u := int64(2 * (math.Nextafter(v, math.Inf(1)) - v)); u > tol {
			tol = u
		}
		if d := cc[ax] - ip[ax]; d > tol || d < -tol {
			return true
		}
	}
	return false
}

// observe runs texel on the case and prepares the oracle facts.
func observe(c *SnapCase) (*Obs, error) { return observeBudget(c, nil) }

// observeBudget: budget (if not nil) is called before texel runs and sets the loop budgets of hook H3.
func observeBudget(c *SnapCase, budget func(o *Obs)) (*Obs, error) {
	gs, err := getSet(c.TMS)
	if err != nil {
		return nil, err
	}
	for _, id := range c.IDs {
		if _, ok := gs.TMS.TileMatrices[id]; !ok {
			return nil, fmt.Errorf("id %d not in set", id)
		}
	}
	o := &Obs{Case: c, Set: gs, Req: gs.Request(c.IDs), levels: map[int]*LevelObs{}, facts: map[int]*oracle.RouteFacts{}}
	for _, id := range c.IDs {
		if !containsInt(o.UIDs, id) {
			o.UIDs = append(o.UIDs, id)
		}
	}
	o.Rings = make([][]P, len(c.Poly))
	o.AllInside, o.AllCovered = true, true
	cx, cy := o.Req.CoveredMax()
	nv := 0
	for i, r := range c.Poly {
		o.Rings[i] = make([]P, len(r))
		for j, p := range r {
			ip := grid.FromFloatPoint(p)
			o.Rings[i][j] = ip
			nv++
			if !gs.InsideExtent(ip) {
				o.AllInside = false
			}
			if ip[0] < gs.OX || ip[1] < gs.OY || ip[0] >= cx || ip[1] >= cy {
				o.AllCovered = false
			}
		}
	}
	o.MaxVertices = nv
	// a vertex stored twice in a row adds a zero-length edge and nothing else: validity, orientation and routing are
	// those of the ring without the repetition (what every geometry library calls "repeated points")
	geomRings := dropRepeatedPoints(o.Rings)
	o.Valid = oracle.ValidPolygon(geomRings)
	if o.Valid && !robustOrientation(geomRings) {
		// valid on the 1e-10 integer grid, but so thin that the float polygon actually passed to the tool may be
		// degenerate or oriented differently (float -> int truncation moves every vertex by up to eps):
		// not a polygon the word "valid" can be relied on for
		o.Valid = false
		o.NearDegenerate = true
	}
	if o.Valid {
		o.Norm = oracle.Normalise(geomRings)
	} else {
		o.Norm = normaliseLikeTool(o.Rings)
	}
	// memory layout of the input: for every second case all rings are windows of ONE array, with spare capacity and canary
	// values between them (what a decoder with a flat coordinate buffer hands out); otherwise every ring has its own array
	poly := c.GeomPolygon()
	var flat [][2]float64
	var canaries []int
	gap := 0
	if h := fw.Hash64(c.JSON()); h&1 == 0 {
		if h&2 == 0 {
			gap = 2 // canaries between the rings; otherwise the rings are adjacent and only the tail is a canary
		}
		poly, flat, canaries = flatPolygon(c.Poly, gap)
	}
	defer func() {
		for _, i := range canaries {
			if flat[i] != canary {
				o.InputModified = true
			}
		}
		if flat != nil {
			k := 0
			for _, r := range c.Poly {
				for _, p := range r {
					if flat[k] != p {
						o.InputModified = true
					}
					k++
				}
				k += gap
			}
		}
	}()
	func() {
		defer func() {
			if r := recover(); r != nil {
				o.Panic = r
				o.PanicText = fmt.Sprintf("%T: %v", r, r)
				o.PanicSite = topTexelFrame(string(debug.Stack()))
				o.Got = nil
			}
		}()
		verifhook.SetBudget(0)
		if budget != nil {
			budget(o)
		}
		o.Got = snap.SnapPolygon(poly, gs.TMS, append([]int{}, c.IDs...), c.Config())
	}()
	o.Ticks = map[string]int{}
	for _, s := range []string{"kmpDeduplicate", "kmpSearchAll", "kmpSearch", "kmpTable", "kmpCorpus"} {
		o.Ticks[s] = verifhook.Ticks(s)
	}
	verifhook.SetBudget(0)
	return o, nil
}

// robustOrientation: every ring's exact doubled area exceeds 4*eps*perimeter(L1), eps = 1 + max|ordinate|*2^-52,
// so that the sign of the area is the same for the float polygon and for its integer image.
func robustOrientation(rings [][]P) bool {
	for _, r := range rings {
		var maxAbs, perim int64
		for i, p := range r {
			q := r[(i+1)%len(r)]
			perim += abs64(q[0]-p[0]) + abs64(q[1]-p[1])
			maxAbs = max(maxAbs, abs64(p[0]), abs64(p[1]))
		}
		eps := 1 + maxAbs>>52 + 1
		thr := new(big.Int).Mul(big.NewInt(4*eps), big.NewInt(perim))
		a := oracle.Area2(r)
		if a.Abs(a).Cmp(thr) <= 0 {
			return false
		}
	}
	return true
}

func abs64(v int64) int64 {
	if v < 0 {
		return -v
	}
	return v
}

var canary = [2]float64{-7.777e77, 7.777e77}

// flatPolygon packs the rings into one backing array: ring i is flat[a:b] with capacity running on into the canaries
// (and the following rings) - legal Go for a caller, and exactly what an in-place append inside texel would trample.
func flatPolygon(rings [][][2]float64, gap int) (geom.Polygon, [][2]float64, []int) {
	n := 2 // two canaries at the very end in any case
	for _, r := range rings {
		n += len(r) + gap
	}
	flat := make([][2]float64, n)
	poly := make(geom.Polygon, len(rings))
	var canaries []int
	k := 0
	for i, r := range rings {
		copy(flat[k:], r)
		poly[i] = flat[k : k+len(r)]
		k += len(r)
		for g := 0; g < gap; g++ {
			flat[k] = canary
			canaries = append(canaries, k)
			k++
		}
	}
	for ; k < n; k++ {
		flat[k] = canary
		canaries = append(canaries, k)
	}
	return poly, flat, canaries
}

// normaliseLikeTool: for invalid rings the sign of the exact area still decides the direction where it is non-zero.
func normaliseLikeTool(rings [][]P) [][]P { return oracle.Normalise(rings) }

func topTexelFrame(stack string) string {
	lines := strings.Split(stack, "\n")
	seenPanic := false
	for i, l := range lines {
		if strings.HasPrefix(l, "panic(") {
			seenPanic = true
			continue
		}
		if seenPanic && strings.HasPrefix(l, "github.com/pdok/texel/") {
			fn := l
			if k := strings.LastIndex(fn, "("); k > 0 {
				fn = fn[:k]
			}
			loc := ""
			if i+1 < len(lines) {
				loc = strings.TrimSpace(lines[i+1])
				if k := strings.Index(loc, " +0x"); k > 0 {
					loc = loc[:k]
				}
				if k := strings.LastIndex(loc, "/"); k > 0 {
					loc = loc[k+1:]
				}
			}
			return strings.TrimPrefix(fn, "github.com/pdok/texel/") + "@" + loc
		}
	}
	return "?"
}

func (o *Obs) IsOutsideGridPanic() bool {
	_, ok := o.Panic.(pointindex.OutsideGridError)
	return ok
}

// FactsFor returns (building on demand) the oracle's routing facts for a requested id.
func (o *Obs) FactsFor(z int) *oracle.RouteFacts {
	if f, ok := o.facts[z]; ok {
		return f
	}
	f := o.Req.Grid(z).RouteRings(o.Norm)
	o.facts[z] = &f
	return &f
}

// Level returns (building on demand) the facts for a requested id.
func (o *Obs) Level(z int) *LevelObs {
	if l, ok := o.levels[z]; ok {
		return l
	}
	l := &LevelObs{Z: z, G: o.Req.Grid(z)}
	l.Facts = *o.FactsFor(z)
	if o.Got != nil {
		l.Out, l.Present = o.Got[z]
		for _, pg := range l.Out {
			var rk [][]PixKey
			for _, r := range pg {
				ks := make([]PixKey, 0, len(r))
				for _, p := range r {
					ip := grid.FromFloatPoint(p)
					kx, ky := l.G.PixOf(ip)
					cc := l.G.Centre(kx, ky)
					if offCentre(cc, ip) {
						l.OffCentre = append(l.OffCentre, fmt.Sprintf("%v (int %v) is not the centre %v of its pixel %v", p, ip, cc, PixKey{kx, ky}))
					}
					ks = append(ks, PixKey{kx, ky})
				}
				rk = append(rk, ks)
			}
			l.OutK = append(l.OutK, rk)
		}
	}
	o.levels[z] = l
	return l
}

// Detail for replay files.
func (o *Obs) Detail(z int) map[string]any {
	d := map[string]any{"valid_input": o.Valid, "int_rings": o.Rings, "round_grid": o.Req.Round, "res_deepest": o.Req.ResD, "deepest_level": o.Req.D}
	if o.Panic != nil {
		d["panic"] = o.PanicText
		d["panic_site"] = o.PanicSite
	}
	if z >= 0 {
		l := o.Level(z)
		d["tile_matrix"] = z
		d["pixel_size"] = l.G.Pix
		d["routed_chains"] = l.Facts.Chains
		d["max_multiplicity"] = l.Facts.MaxMult
		d["output_pixels"] = l.OutK
		d["output"] = l.Out
	}
	return d
}

type finding struct {
	class, sig, msg string
	z               int
}

func mclass(m int) string { return fmt.Sprintf("M%d", min(m, 3)) }
