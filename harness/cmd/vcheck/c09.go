package main

import (
	"encoding/json"
	"errors"
	"fmt"
	"math"
	"strings"

	"verifharness/fw"
	"verifharness/grid"

	"github.com/pdok/texel/pointindex"
	"github.com/pdok/texel/snap"
)

var c09Sets = []SetChoice{
	{Spec: dy(3, 16, -8), Bases: []int{0, 1}}, {Spec: dy(2, 16, 0), Bases: []int{0}}, setDyadic256,
	{Spec: grid.Spec{Name: "NetherlandsRDNewQuad"}, Bases: []int{0, 5, 12, 14}},
	{Spec: grid.Spec{Name: "WebMercatorQuad"}, Bases: []int{0, 6, 14, 18}},
	{Spec: grid.Spec{Name: "EuropeanETRS89_LAEAQuad"}, Bases: []int{0, 8, 13}},
	{Spec: grid.Spec{Name: "WorldMercatorWGS84Quad"}, Bases: []int{3, 12}},
	{Spec: grid.Spec{Name: "NZTM2000Quad"}, Bases: []int{0, 10}},
	// twins (see gridZoo): same id, origin numbers, corner, root cell size and tile size, three different extents
	{Spec: grid.Spec{Depth: 4, Cell: 16, Origin: 1234.25, OriginY: c09f(-777.5)}, Bases: []int{0, 1}},
	{Spec: grid.Spec{Depth: 4, Cell: 16, Origin: -777.5, OriginY: c09f(1234.25), AxesXY: true}, Bases: []int{0, 1}},
	{Spec: grid.Spec{Depth: 3, Cell: 32, Origin: 1234.25, OriginY: c09f(-777.5), RootMatrix: 2}, Bases: []int{0, 1}},
}

func c09f(v float64) *float64 { return &v }

type outsideWhere struct {
	side string // left bottom right top
	dist string
}

// genOutsideCase builds a polygon near a border and moves some vertices outside.
func genOutsideCase(rng *fw.Rng) (*SnapCase, string) {
	sc := fw.Pick(rng, c09Sets)
	gs, err := getSet(sc.Spec)
	if err != nil {
		return nil, "set"
	}
	base := fw.Pick(rng, sc.Bases)
	var ids []int
	for id := base; id < base+3; id++ {
		if _, ok := gs.TMS.TileMatrices[id]; ok && (len(ids) == 0 || rng.Bool()) {
			ids = append(ids, id)
		}
	}
	req := gs.Request(ids)
	if req.D > 32 {
		return nil, "level>32"
	}
	pix := req.ResD
	side := rng.Intn(4)
	// a point on the chosen border, somewhere along it
	along := gs.OX + rng.Int63n(gs.Span-20*pix) + 10*pix
	alongY := gs.OY + rng.Int63n((gs.MaxY-gs.OY)-20*pix) + 10*pix
	dists := []int64{1, 2, 3, 10, 1000, 1000000, pix / 4, pix / 2, pix - pix/1000 - 1, pix, pix + pix/2, 100 * pix, 0}
	names := []string{"1u", "2u", "3u", "10u", "1e3u", "1e6u", "quarter-pixel", "half-pixel", "0.999-pixel", "1-pixel", "1.5-pixel", "100-pixels", "on-border"}
	far := int64(1000000)
	for far > 1 && (float64(far)*float64(pix) > 3e17) {
		far /= 10
	}
	dists = append(dists, far*pix)
	names = append(names, "far")
	diagonal := rng.Chance(1, 4) // outside on two sides at once (the four corner regions of the plane)
	side2 := rng.Intn(2)
	outPoint := func() (P, string) {
		di := rng.Intn(len(dists))
		d := dists[di]
		var p P
		var name string
		switch side {
		case 0: // left: outside iff x < OX
			p, name = P{gs.OX - max(d, 1), alongY + rng.Int63n(5*pix)}, "left:"
		case 1:
			p, name = P{along + rng.Int63n(5*pix), gs.OY - max(d, 1)}, "bottom:"
		case 2: // right: outside iff x >= MaxX
			p, name = P{gs.MaxX + d, alongY + rng.Int63n(5*pix)}, "right:"
		default:
			p, name = P{along + rng.Int63n(5*pix), gs.MaxY + d}, "top:"
		}
		if diagonal {
			// also outside on the other axis, by an independently drawn distance
			d2 := dists[rng.Intn(len(dists))]
			ax := 1
			if side == 1 || side == 3 {
				ax = 0
			}
			lo, hi := gs.OY, gs.MaxY
			if ax == 0 {
				lo, hi = gs.OX, gs.MaxX
			}
			if side2 == 0 {
				p[ax] = lo - max(d2, 1)
			} else {
				p[ax] = hi + d2
			}
			name = "corner-region:"
		}
		return p, name + names[di]
	}
	// inside polygon near that border: 3-6 vertices within a few pixels inside
	inPoint := func() P {
		off := (1 + rng.Int63n(8)) * pix / 2
		lat := rng.Int63n(8*pix) - 4*pix
		switch side {
		case 0:
			return P{gs.OX + off, alongY + lat}
		case 1:
			return P{along + lat, gs.OY + off}
		case 2:
			return P{gs.MaxX - off - pix, alongY + lat} // one pixel further in: the integer grid may end before the float extent
		default:
			return P{along + lat, gs.MaxY - off - pix}
		}
	}
	nring := 1
	if rng.Chance(1, 4) {
		nring = 2
	}
	var rings [][]P
	var where []string
	nOut := 0
	for r := 0; r < nring; r++ {
		k := 3 + rng.Intn(4)
		ring := make([]P, k)
		for i := range ring {
			ring[i] = inPoint()
		}
		rings = append(rings, ring)
	}
	// which vertices go outside: one (first/middle/last), several, or all; control: none (1 in 8)
	mode := rng.Intn(8)
	tr := rng.Intn(nring)
	ring := rings[tr]
	set := func(ri, vi int) {
		p, w := outPoint()
		rings[ri][vi] = p
		where = append(where, w)
		nOut++
	}
	switch mode {
	case 0: // control
	case 1:
		set(tr, 0)
	case 2:
		set(tr, len(ring)-1)
	case 3:
		set(tr, len(ring)/2)
	case 4, 5:
		for i := range ring {
			if rng.Bool() {
				set(tr, i)
			}
		}
	case 6:
		for ri := range rings {
			for i := range rings[ri] {
				set(ri, i)
			}
		}
	default:
		set(tr, rng.Intn(len(ring)))
	}
	wrapped := false
	if rng.Chance(1, 6) {
		// "wrap" mode: an inside vertex at a pixel centre, followed in the same ring by that vertex displaced by an exact
		// power-of-two number of deepest-level pixels (at least one grid width) along one or both axes: the displaced vertex
		// has the same position within its pixel and a pixel address that is congruent to an indexed one modulo 2^j, so
		// address arithmetic that truncates, folds or interleaves bits maps it onto a pixel that already holds a point.
		i := rng.Intn(len(ring) - 1)
		v := ring[i]
		v[0] = gs.OX + (v[0]-gs.OX)/pix*pix + pix/2
		v[1] = gs.OY + (v[1]-gs.OY)/pix*pix + pix/2
		var js []int
		for _, j := range []int{int(req.D), int(req.D) + 1, 16, 24, 31, 32, 33, 40, 48} {
			if j >= int(req.D) && j < 62 && float64(pix)*math.Ldexp(1, j) < 4e18 {
				js = append(js, j)
			}
		}
		if len(js) > 0 && v[0] >= gs.OX && v[1] >= gs.OY && v[0] < gs.MaxX-pix && v[1] < gs.MaxY-pix {
			j := fw.Pick(rng, js)
			d := pix << uint(j)
			w := v
			axes := rng.Intn(3) // x, y, both
			sign := int64(1)
			if rng.Chance(1, 4) {
				sign = -1
			}
			ok := true
			for ax := 0; ax < 2; ax++ {
				if axes == ax || axes == 2 {
					if (sign > 0 && w[ax] > math.MaxInt64/2-d) || (sign < 0 && w[ax] < math.MinInt64/2+d) {
						ok = false
						break
					}
					w[ax] += sign * d
				}
			}
			if ok {
				ring[i] = v
				ring[i+1] = w
				where = append([]string{fmt.Sprintf("wrap:2^%d-pixels", j)}, where...)
				nOut++
				wrapped = true
			}
		}
	}
	kindSuffix := ""
	if nOut > 0 && rng.Chance(1, 1500) {
		// a large polygon (thousands of points, all but a few inside): either the outside vertex sits late in a long
		// shell, or a long shell that is entirely inside is put in front and the ring with the outside vertex becomes a hole
		n := fw.Pick(rng, []int{1000, 5000, 8191, 8192, 8400, 12000, 20000, 70000})
		pad := make([]P, n)
		for i := range pad {
			pad[i] = inPoint()
		}
		if rng.Bool() {
			rings = append([][]P{pad}, rings...)
			kindSuffix = "/in-hole-of-large-polygon"
		} else {
			rings[tr] = append(pad, rings[tr]...)
			kindSuffix = "/late-in-large-ring"
		}
	}
	poly := make([][][2]float64, len(rings))
	for i, r := range rings {
		poly[i] = make([][2]float64, len(r))
		for j, p := range r {
			poly[i][j], _ = grid.ToFloatPoint(p)
		}
	}
	kind := "outside:control"
	if nOut > 0 {
		kind = "outside:" + where[0]
	}
	// sometimes an astronomically far vertex: beyond what the 1e-10 integer representation can hold
	if nOut > 0 && !wrapped && rng.Chance(1, 40) {
		v := fw.Pick(rng, []float64{9.3e8, 1e9, 1e10, 1.8446744073709552e9, 1e15, 1e30, 1e300, math.MaxFloat64}) // (no infinities: a case must be expressible in JSON)
		if rng.Bool() {
			v = -v
		}
		ri, vi := rng.Intn(len(poly)), 0
		vi = rng.Intn(len(poly[ri]))
		poly[ri][vi][rng.Intn(2)] = v
		kind = "outside:astronomical"
	}
	return &SnapCase{TMS: sc.Spec, IDs: ids, Keep: rng.Bool(), Reverse: rng.Chance(1, 4), Poly: poly, Kind: kind + kindSuffix}, ""
}

func judgeC09(c *fw.Ctx, sc *SnapCase) {
	cj := sc.JSON()
	c.Rec.SetCurrent(cj)
	gs, err := getSet(sc.TMS)
	if err != nil {
		c.Rec.Note(err.Error())
		return
	}
	c.Rec.Eval()
	req := gs.Request(sc.IDs)
	pix := req.ResD
	// oracle: which vertices are outside the half-open extent, in the tool's integer domain
	nOut := 0
	minDist := int64(1) << 62
	type ov struct {
		p  [2]float64
		ip P
	}
	var outs []ov
	for _, r := range sc.Poly {
		for _, p := range r {
			ip := grid.FromFloatPoint(p)
			// beyond +-9e8 CRS units the 1e-10 integer representation overflows: such a vertex is outside every extent
			huge := math.Abs(p[0]) > 9e8 || math.Abs(p[1]) > 9e8
			if huge || !gs.InsideExtent(ip) {
				nOut++
				outs = append(outs, ov{p, ip})
				d := max(gs.OX-ip[0], ip[0]-gs.MaxX+1, gs.OY-ip[1], ip[1]-gs.MaxY+1)
				if huge {
					d = int64(1) << 61
				}
				minDist = min(minDist, d)
			}
		}
	}
	call := func(ignore bool) (got map[int][]snapPolys, pan any) {
		defer func() { pan = recover() }()
		cfg := sc.Config()
		cfg.IgnoreOutsideGrid = ignore
		res := snap.SnapPolygon(sc.GeomPolygon(), gs.TMS, append([]int{}, sc.IDs...), cfg)
		got = map[int][]snapPolys{}
		for k, v := range res {
			for _, pg := range v {
				got[k] = append(got[k], snapPolys(pg))
			}
		}
		return got, nil
	}
	gotOff, panOff := call(false)
	gotOn, panOn := call(true)
	npts := 0
	for _, r := range sc.Poly {
		npts += len(r)
	}
	if i := strings.Index(sc.Kind, "/"); i >= 0 {
		c.Rec.Count("large_polygon:" + sc.Kind[i+1:])
		c.Rec.Max("points_in_a_polygon_with_an_outside_vertex", int64(npts))
		c.Rec.Count(sc.Kind[:i])
	} else {
		c.Rec.Count(sc.Kind)
	}
	if nOut == 0 {
		c.Rec.Count("control_all_inside")
		if panOff != nil || panOn != nil {
			c.Rec.Count("control_rejected_or_panicked(not judged here: C06)")
		}
		return
	}
	c.Rec.Count("judged_cases_with_outside_vertex")
	if minDist < pix {
		c.Rec.NonTrivial(fw.Hash64(cj))
		c.Rec.Count("outside_by_less_than_one_pixel")
	}
	detail := map[string]any{"outside_vertices": outs, "extent_int": []int64{gs.OX, gs.OY, gs.MaxX, gs.MaxY}, "pixel_units": pix}
	isOGE := func(p any) bool {
		if e, ok := p.(error); ok {
			var oge pointindex.OutsideGridError
			return errors.As(e, &oge)
		}
		return false
	}
	switch {
	case panOff == nil:
		c.Rec.Violation("accepted-outside-vertex", "", fmt.Sprintf("%d vertices outside the half-open extent (nearest %d units = %.4g pixels outside; first %v = int %v; extent int [%d,%d)x[%d,%d)) but SnapPolygon returned normally with %d tile matrices instead of panicking", nOut, minDist, float64(minDist)/float64(pix), outs[0].p, outs[0].ip, gs.OX, gs.MaxX, gs.OY, gs.MaxY, len(gotOff)), cj, detail)
	case !isOGE(panOff):
		c.Rec.Violation("wrong-panic-value", "", fmt.Sprintf("vertex outside the extent: panic value is %T (%v), not a pointindex.OutsideGridError", panOff, panOff), cj, detail)
	}
	switch {
	case panOn != nil:
		c.Rec.Violation("panic-although-ignoring", "", fmt.Sprintf("vertex outside the extent and ignore-outside-grid on: panicked with %T %v instead of returning an empty result", panOn, panOn), cj, detail)
	case len(gotOn) != 0:
		c.Rec.Violation("non-empty-result-although-outside", "", fmt.Sprintf("%d vertices outside the half-open extent (nearest %d units = %.4g pixels outside; first %v = int %v) and ignore-outside-grid on: result has %d tile matrices instead of being empty", nOut, minDist, float64(minDist)/float64(pix), outs[0].p, outs[0].ip, len(gotOn)), cj, detail)
	}
	// InsertPoint on each outside vertex
	var ipan any
	func() {
		defer func() { ipan = recover() }()
		ix, err := pointindex.FromTileMatrixSet(gs.TMS, req.Deepest)
		if err != nil {
			panic(err)
		}
		for _, o := range outs {
			err := ix.InsertPoint(o.p)
			c.Rec.Count("insertpoint_calls_on_outside_vertices")
			var oge pointindex.OutsideGridError
			if err == nil || !errors.As(err, &oge) {
				c.Rec.Violation("insertpoint-accepts-outside", "", fmt.Sprintf("InsertPoint(%v) (int %v, outside [%d,%d)x[%d,%d)) returned %v, not an OutsideGridError", o.p, o.ip, gs.OX, gs.MaxX, gs.OY, gs.MaxY, err), cj, detail)
				break
			}
		}
	}()
	if ipan != nil {
		c.Rec.Violation("insertpoint-panics", "", fmt.Sprintf("InsertPoint panicked: %v", ipan), cj, detail)
	}
	if npts < 100 && c.Rec.WantSample() {
		c.Rec.Sample(map[string]any{"case": sc, "outside_vertices": nOut, "nearest_outside_units": minDist, "panic_value_without_ignore": fmt.Sprintf("%T", panOff), "result_with_ignore_len": len(gotOn)})
	}
}

type snapPolys [][][2]float64

func init() {
	required := []string{"judged_cases_with_outside_vertex", "outside_by_less_than_one_pixel", "control_all_inside", "large_polygon:in-hole-of-large-polygon", "large_polygon:late-in-large-ring"}
	fw.Register(&fw.Prop{
		ID: "C09", Cases: tierN(400000, 5000000),
		Run: func(c *fw.Ctx) {
			sc, why := genOutsideCase(c.Rng)
			if sc == nil {
				c.Rec.Count("skipped:" + why)
				return
			}
			judgeC09(c, sc)
		},
		Replay: func(c *fw.Ctx, raw json.RawMessage) {
			var sc SnapCase
			if err := json.Unmarshal(raw, &sc); err != nil {
				c.Rec.Note(err.Error())
				return
			}
			judgeC09(c, &sc)
		},
		Rule:        "polygons near each of the four borders with 1..all vertices moved outside by {1,2,3,10,1e3,1e6 units; 1/4, 1/2, 0.999, 1, 1.5, 100 pixels; exactly on the right/top border; far; an indexed inside vertex displaced by 2^j deepest-level pixels (wrap)}, on grids with zero, negative and real-world origins, shallow and deep ids; outside is decided on the tool's 1e-10 integer ordinates against the half-open integer extent; observed: panic value without the ignore flag, result with it, InsertPoint error; non-trivial = nearest outside vertex less than one pixel outside",
		Required:    func(string) []string { return required },
		MinNonTriv:  500,
		Assumptions: []string{"distances below 1e-10 CRS units are below the tool's coordinate resolution and not generated", "polygons entirely inside are controls and not judged here (C06)"},
		Technique:   "runtime monitor: outside-extent oracle on SnapPolygon panic/result and InsertPoint error",
	})
}
