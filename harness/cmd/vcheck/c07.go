package main

import (
	"encoding/binary"
	"encoding/json"
	"fmt"
	"hash/fnv"
	"io"
	"log"
	"math"
	"os"
	"os/exec"
	"path/filepath"
	"reflect"
	"sort"
	"strconv"
	"strings"
	"sync"

	"verifharness/fw"
	"verifharness/oracle"

	"github.com/go-spatial/geom"
	"github.com/pdok/texel/snap"
)

type snapResult = map[int][]geom.Polygon

func callSnap(sc *SnapCase, ids []int, poly geom.Polygon, reverse bool) (res snapResult, pan any) {
	defer func() { pan = recover() }()
	gs, err := getSet(sc.TMS)
	if err != nil {
		panic(err)
	}
	cfg := sc.Config()
	cfg.ReverseWindingOrder = reverse
	return snap.SnapPolygon(poly, gs.TMS, append([]int{}, ids...), cfg), nil
}

// hashResult: order-sensitive hash of a whole result map (keys sorted).
func hashResult(r snapResult) uint64 {
	h := fnv.New64a()
	var ks []int
	for k := range r {
		ks = append(ks, k)
	}
	sort.Ints(ks)
	var b [8]byte
	w := func(v uint64) { binary.LittleEndian.PutUint64(b[:], v); h.Write(b[:]) }
	for _, k := range ks {
		w(uint64(k))
		w(uint64(len(r[k])))
		for _, pg := range r[k] {
			w(uint64(len(pg)) | 1<<40)
			for _, ring := range pg {
				w(uint64(len(ring)) | 1<<41)
				for _, p := range ring {
					w(math.Float64bits(p[0]))
					w(math.Float64bits(p[1]))
				}
			}
		}
	}
	return h.Sum64()
}

func rotNorm(ring [][2]float64) [][2]float64 {
	if len(ring) == 0 {
		return ring
	}
	best := 0
	for i := range ring {
		if ring[i][0] < ring[best][0] || ring[i][0] == ring[best][0] && ring[i][1] < ring[best][1] {
			best = i
		}
	}
	// several occurrences of the smallest vertex: choose the rotation that is lexicographically smallest as a whole
	out := append(append([][2]float64{}, ring[best:]...), ring[:best]...)
	for i := range ring {
		if ring[i] == ring[best] && i != best {
			cand := append(append([][2]float64{}, ring[i:]...), ring[:i]...)
			if lessRing(cand, out) {
				out = cand
			}
		}
	}
	return out
}

func lessRing(a, b [][2]float64) bool {
	for i := range a {
		if a[i] != b[i] {
			return a[i][0] < b[i][0] || a[i][0] == b[i][0] && a[i][1] < b[i][1]
		}
	}
	return false
}

func normResult(r snapResult, reverseRings bool) snapResult {
	out := snapResult{}
	for k, pgs := range r {
		np := make([]geom.Polygon, len(pgs))
		for i, pg := range pgs {
			np[i] = make(geom.Polygon, len(pg))
			for j, ring := range pg {
				rr := append([][2]float64{}, ring...)
				if reverseRings {
					oracle.Reverse(rr)
				}
				np[i][j] = rotNorm(rr)
			}
		}
		out[k] = np
	}
	return out
}

func judgeC07(c *fw.Ctx, sc *SnapCase) {
	cj := sc.JSON()
	c.Rec.SetCurrent(cj)
	o, err := observe(sc)
	if err != nil {
		c.Rec.Count("skipped:observe-error")
		return
	}
	c.Rec.Eval()
	c.Rec.Count("gen:" + sc.Kind)
	if o.Panic != nil {
		c.Rec.Abort(fmt.Sprintf("snap.SnapPolygon panicked (%s at %s); judged by C06", o.PanicText, o.PanicSite), cj)
		return
	}
	base := o.Got
	baseHash := hashResult(base)
	// record for the fresh-process comparison
	if f, err := os.OpenFile(filepath.Join(c.Tmp, "hashes.bin"), os.O_APPEND|os.O_CREATE|os.O_WRONLY, 0o644); err == nil {
		var b [16]byte
		binary.LittleEndian.PutUint64(b[:8], uint64(c.Idx))
		binary.LittleEndian.PutUint64(b[8:], baseHash)
		f.Write(b[:])
		f.Close()
	}
	viol := func(class, msg string, other snapResult) {
		c.Rec.Violation(class, "", msg, cj, map[string]any{"first_result": base, "other_result": other, "valid_input": o.Valid})
	}
	// 1. repetitions in this process
	for rep := 0; rep < 3; rep++ {
		r, pan := callSnap(sc, sc.IDs, sc.GeomPolygon(), sc.Reverse)
		c.Rec.Count("calls:repetition")
		if pan != nil || !reflect.DeepEqual(r, base) {
			viol("repetition-differs", fmt.Sprintf("repetition %d of the same call in the same process returned a different result (panic=%v)", rep+2, pan), r)
			break
		}
	}
	// 2. id list permuted
	if len(sc.IDs) > 1 {
		ids := append([]int{}, sc.IDs...)
		oracle.Reverse(ids)
		r, pan := callSnap(sc, ids, sc.GeomPolygon(), sc.Reverse)
		c.Rec.Count("calls:ids_permuted")
		if pan != nil || !reflect.DeepEqual(r, base) {
			viol("id-order-matters", fmt.Sprintf("requesting the same tile matrices in the order %v instead of %v changed the result (panic=%v)", ids, sc.IDs, pan), r)
		}
	}
	nt := false
	multi := 0
	for _, pgs := range base {
		if len(pgs) >= 2 {
			multi++
		}
		for _, pg := range pgs {
			if len(pg) >= 2 {
				multi++
			}
		}
	}
	if multi > 0 && len(base) >= 1 {
		nt = true
		c.Rec.Count("result_with_several_polygons_or_holes")
	}
	if o.Valid {
		c.Rec.Count("valid_input")
		// 3. every subset of rings reversed (all subsets up to 3 rings, 4 random ones above)
		nr := len(sc.Poly)
		var masks []int
		if nr <= 3 {
			for m := 1; m < 1<<nr; m++ {
				masks = append(masks, m)
			}
		} else {
			for k := 0; k < 4; k++ {
				masks = append(masks, 1+c.Rng.Intn(1<<nr-1))
			}
		}
		nb := normResult(base, false)
		for _, m := range masks {
			poly := sc.GeomPolygon()
			for i := range poly {
				if m>>i&1 == 1 {
					oracle.Reverse(poly[i])
				}
			}
			r, pan := callSnap(sc, sc.IDs, poly, sc.Reverse)
			c.Rec.Count("calls:ring_direction")
			if pan != nil || !reflect.DeepEqual(normResult(r, false), nb) {
				viol("ring-direction-matters", fmt.Sprintf("giving the rings with mask %b in the opposite direction changed the result (compared up to the start vertex of each ring; panic=%v)", m, pan), r)
				break
			}
		}
		// 4. reverse winding order: nothing but the direction of every ring changes
		r, pan := callSnap(sc, sc.IDs, sc.GeomPolygon(), !sc.Reverse)
		c.Rec.Count("calls:reverse_winding")
		ok := pan == nil && len(r) == len(base)
		if ok {
		cmp:
			for z, pgs := range base {
				rp, has := r[z]
				if !has || len(rp) != len(pgs) {
					ok = false
					break
				}
				for i := range pgs {
					if len(pgs[i]) != len(rp[i]) {
						ok = false
						break cmp
					}
					for j := range pgs[i] {
						a, b := pgs[i][j], rp[i][j]
						rev := append([][2]float64{}, b...)
						oracle.Reverse(rev)
						if len(a) >= 3 {
							if !reflect.DeepEqual(rotNorm(a), rotNorm(rev)) {
								ok = false
								break cmp
							}
						} else if !reflect.DeepEqual([][2]float64(a), [][2]float64(b)) && !reflect.DeepEqual([][2]float64(a), rev) {
							ok = false
							break cmp
						}
					}
				}
			}
		}
		if !ok {
			viol("reverse-winding-changes-more-than-direction", fmt.Sprintf("requesting reversed winding order (%v instead of %v) changed more than the direction of every ring (panic=%v)", !sc.Reverse, sc.Reverse, pan), r)
		}
	}
	if nt {
		c.Rec.NonTrivial(fw.Hash64(cj))
	}
	if c.Rec.WantSample() {
		c.Rec.Sample(map[string]any{"case": sc, "result": base, "result_hash": strconv.FormatUint(baseHash, 16)})
	}
}

var prC07 = &Profile{Sets: defaultSets, Kinds: []string{"star", "comb", "comb", "sliver", "angle", "rectholes", "rectholes", "spiky", "spiky", "grow", "junk", "motif", "border"}, MinIDs: 1, Huge: true, Zoo: true, Repeat: true, TileWidth: true}

// c07HashPass: run by the parent in fresh processes; recomputes the result hash of every case.
func c07HashPass(args []string) {
	log.SetOutput(io.Discard)
	seed, _ := strconv.ParseInt(args[0], 10, 64)
	n, _ := strconv.ParseInt(args[1], 10, 64)
	w, _ := strconv.ParseInt(args[2], 10, 64)
	W, _ := strconv.ParseInt(args[3], 10, 64)
	out, err := os.Create(args[4])
	if err != nil {
		os.Exit(4)
	}
	defer out.Close()
	for idx := int64(0); idx < n; idx++ {
		if idx%W != w {
			continue
		}
		rng := fw.CaseRng(seed, "C07", "", idx)
		sc, _ := genSnapCase(rng, prC07)
		if sc == nil {
			continue
		}
		r, pan := callSnap(sc, sc.IDs, sc.GeomPolygon(), sc.Reverse)
		if pan != nil {
			continue
		}
		var b [16]byte
		binary.LittleEndian.PutUint64(b[:8], uint64(idx))
		binary.LittleEndian.PutUint64(b[8:], hashResult(r))
		out.Write(b[:])
	}
}

// c07ConcurrentPass: run by the parent in fresh processes (plain build, and the race build in the thorough tier): batches
// of cases are first snapped one after the other, then by several goroutines at the same time; a repetition that runs while
// other calls are in flight must return the same geometry as one that runs alone. Mismatches go to the output file, one JSON
// object per line.
func c07ConcurrentPass(args []string) {
	log.SetOutput(io.Discard)
	seed, _ := strconv.ParseInt(args[0], 10, 64)
	n, _ := strconv.ParseInt(args[1], 10, 64)
	w, _ := strconv.ParseInt(args[2], 10, 64)
	W, _ := strconv.ParseInt(args[3], 10, 64)
	stride, _ := strconv.ParseInt(args[4], 10, 64)
	out, err := os.Create(args[5])
	if err != nil {
		os.Exit(4)
	}
	defer out.Close()
	type item struct {
		idx int64
		sc  *SnapCase
		ref uint64
	}
	var mu sync.Mutex
	calls, batches := 0, 0
	report := func(m map[string]any) {
		mu.Lock()
		b, _ := json.Marshal(m)
		out.Write(append(b, '\n'))
		mu.Unlock()
	}
	const K, G = 6, 6
	var batch []item
	flush := func() {
		if len(batch) == 0 {
			return
		}
		batches++
		var wg sync.WaitGroup
		for g := 0; g < G; g++ {
			wg.Add(1)
			go func(g int) {
				defer wg.Done()
				for round := 0; round < 2; round++ {
					for k := range batch {
						it := batch[(k+g)%len(batch)]
						r, pan := callSnap(it.sc, it.sc.IDs, it.sc.GeomPolygon(), it.sc.Reverse)
						mu.Lock()
						calls++
						mu.Unlock()
						if pan != nil {
							report(map[string]any{"idx": it.idx, "panic": fmt.Sprint(pan)})
						} else if h := hashResult(r); h != it.ref {
							report(map[string]any{"idx": it.idx, "alone": fmt.Sprintf("%x", it.ref), "concurrent": fmt.Sprintf("%x", h)})
						}
					}
				}
			}(g)
		}
		wg.Wait()
		batch = batch[:0]
	}
	for idx := int64(0); idx < n; idx++ {
		if idx%W != w || (idx/W)%stride != 0 {
			continue
		}
		rng := fw.CaseRng(seed, "C07", "", idx)
		sc, _ := genSnapCase(rng, prC07)
		if sc == nil || strings.HasPrefix(sc.Kind, "huge") || strings.HasPrefix(sc.Kind, "zipper") {
			continue
		}
		r, pan := callSnap(sc, sc.IDs, sc.GeomPolygon(), sc.Reverse)
		if pan != nil {
			continue
		}
		batch = append(batch, item{idx, sc, hashResult(r)})
		if len(batch) == K {
			flush()
		}
	}
	flush()
	report(map[string]any{"summary": true, "concurrent_calls": calls, "batches": batches, "goroutines": G})
}

func readHashes(path string, into map[int64]uint64) {
	b, err := os.ReadFile(path)
	if err != nil {
		return
	}
	for i := 0; i+16 <= len(b); i += 16 {
		into[int64(binary.LittleEndian.Uint64(b[i:]))] = binary.LittleEndian.Uint64(b[i+8:])
	}
}

// concurrentPass runs c07-concurrent in W fresh processes of the given binary and merges what they report.
func concurrentPass(p *fw.ParentCtx, n int64, bin, label string, stride int) {
	const W = 8
	var cmds []*exec.Cmd
	for w := 0; w < W; w++ {
		out := filepath.Join(p.Tmp, fmt.Sprintf("c07conc_%s_%d.jsonl", label, w))
		cmd := exec.Command("timeout", "-s", "QUIT", "3600", bin, "c07-concurrent", strconv.FormatInt(p.Seed, 10), strconv.FormatInt(n, 10), strconv.Itoa(w), strconv.Itoa(W), strconv.Itoa(stride), out)
		cmd.Env = append(os.Environ(), "GORACE=halt_on_error=0 log_path="+filepath.Join(p.Tmp, "race_c07_"+label))
		_ = cmd.Start()
		cmds = append(cmds, cmd)
	}
	calls, mism := 0, 0
	for w, cmd := range cmds {
		err := cmd.Wait()
		f, ferr := os.Open(filepath.Join(p.Tmp, fmt.Sprintf("c07conc_%s_%d.jsonl", label, w)))
		if ferr != nil {
			p.Inconclusive = append(p.Inconclusive, fmt.Sprintf("concurrent pass (%s) %d: no output (%v)", label, w, err))
			continue
		}
		sawSummary := false
		dec := json.NewDecoder(f)
		for {
			var m map[string]any
			if dec.Decode(&m) != nil {
				break
			}
			if m["summary"] == true {
				sawSummary = true
				calls += int(m["concurrent_calls"].(float64))
				continue
			}
			mism++
			if mism <= 3 {
				idx := int64(m["idx"].(float64))
				rng := fw.CaseRng(p.Seed, "C07", "", idx)
				sc, _ := genSnapCase(rng, prC07)
				msg := fmt.Sprintf("case %d: result hash %v when snapped alone, %v when the same call runs while other SnapPolygon calls are in flight (6 goroutines)", idx, m["alone"], m["concurrent"])
				if m["panic"] != nil {
					msg = fmt.Sprintf("case %d: returns normally when snapped alone, panics (%v) when the same call runs while other SnapPolygon calls are in flight (6 goroutines)", idx, m["panic"])
				}
				p.Merged.ViolCount["concurrent-repetition-differs"]++
				p.Merged.Violations = append(p.Merged.Violations, fw.Violation{Property: "C07", Class: "concurrent-repetition-differs", Msg: msg, Case: sc.JSON(), CaseIdx: idx})
			} else {
				p.Merged.ViolCount["concurrent-repetition-differs"]++
			}
		}
		f.Close()
		if !sawSummary {
			p.Inconclusive = append(p.Inconclusive, fmt.Sprintf("concurrent pass (%s) %d did not finish (%v)", label, w, err))
		}
	}
	p.Extra["concurrent_calls_compared_"+label+"_build"] = calls
	p.Extra["concurrent_mismatches_"+label+"_build"] = mism
	if calls == 0 {
		p.Inconclusive = append(p.Inconclusive, "no concurrent repetitions compared ("+label+" build)")
	}
	if label == "race" {
		total, texel := raceReports(p.Tmp)
		p.Extra["race_reports_total"] = total
		p.Extra["race_reports_with_texel_frame_deduplicated"] = len(texel)
		for i, blk := range texel {
			if i >= 3 {
				break
			}
			p.Merged.ViolCount["data-race-between-concurrent-calls"]++
			p.Merged.Violations = append(p.Merged.Violations, fw.Violation{Property: "C07", Class: "data-race-between-concurrent-calls", Msg: "two SnapPolygon calls running at the same time race on shared memory (race detector report with a texel frame):\n" + tailStr(blk, 2500), Case: json.RawMessage(`{"note":"race report; re-run the check to reproduce (schedule dependent)"}`)})
		}
	}
}

func init() {
	cases := tierN(60000, 800000)
	fw.Register(&fw.Prop{
		ID: "C07", Cases: cases,
		Run: func(c *fw.Ctx) {
			sc, why := genSnapCase(c.Rng, prC07)
			if sc == nil {
				c.Rec.Count("skipped:" + why)
				return
			}
			judgeC07(c, sc)
		},
		Replay: func(c *fw.Ctx, raw json.RawMessage) {
			var sc SnapCase
			if err := json.Unmarshal(raw, &sc); err != nil {
				c.Rec.Note(err.Error())
				return
			}
			judgeC07(c, &sc)
		},
		Extra: func(p *fw.ParentCtx) {
			// fresh processes (different map hash seeds): every case's result hash must equal the workers' one
			first := map[int64]uint64{}
			dirs, _ := filepath.Glob(filepath.Join(p.Tmp, "tmp_*", "hashes.bin"))
			for _, d := range dirs {
				readHashes(d, first)
			}
			n := cases(p.Tier)
			mismatches, compared := 0, 0
			const passes, W = 3, 8
			for pass := 0; pass < passes; pass++ {
				var cmds []*exec.Cmd
				for w := 0; w < W; w++ {
					out := filepath.Join(p.Tmp, fmt.Sprintf("c07pass_%d_%d.bin", pass, w))
					cmd := exec.Command("timeout", "-s", "QUIT", "1800", p.Self, "c07-hash", strconv.FormatInt(p.Seed, 10), strconv.FormatInt(n, 10), strconv.Itoa(w), strconv.Itoa(W), out)
					cmd.Env = append(os.Environ(), fmt.Sprintf("VERIF_PASS=%d", pass))
					_ = cmd.Start()
					cmds = append(cmds, cmd)
				}
				for w, cmd := range cmds {
					if err := cmd.Wait(); err != nil {
						p.Inconclusive = append(p.Inconclusive, fmt.Sprintf("fresh-process pass %d/%d failed: %v", pass, w, err))
						continue
					}
					got := map[int64]uint64{}
					readHashes(filepath.Join(p.Tmp, fmt.Sprintf("c07pass_%d_%d.bin", pass, w)), got)
					for idx, h := range got {
						f, ok := first[idx]
						if !ok {
							continue
						}
						compared++
						if f != h {
							mismatches++
							if mismatches <= 3 {
								rng := fw.CaseRng(p.Seed, "C07", "", idx)
								sc, _ := genSnapCase(rng, prC07)
								p.Merged.ViolCount["fresh-process-differs"]++
								p.Merged.Violations = append(p.Merged.Violations, fw.Violation{Property: "C07", Class: "fresh-process-differs", Msg: fmt.Sprintf("case %d: result hash %x in the worker process, %x in a fresh process", idx, f, h), Case: sc.JSON(), CaseIdx: idx})
							}
						}
					}
				}
			}
			// concurrent repetitions: plain build always; the race build too when the check script provides it (thorough)
			concurrentPass(p, n, p.Self, "plain", 16)
			if rb := os.Getenv("VERIF_VCHECK_RACE"); rb != "" {
				concurrentPass(p, n, rb, "race", 64)
			}
			p.Extra["fresh_process_passes"] = passes
			p.Extra["fresh_process_results_compared"] = compared
			p.Extra["fresh_process_mismatches"] = mismatches
			if compared == 0 {
				p.Inconclusive = append(p.Inconclusive, "no results compared across processes")
			}
		},
		Rule: "every case: the call repeated 3 more times in-process (deep equality of the whole map), the id list reversed, and the result hash recomputed in 3 further passes of fresh processes; a 1/16 sample of the cases is repeated while other SnapPolygon calls are in flight (batches of 6 cases, 6 goroutines x 2 rounds, in fresh processes; thorough: also a 1/64 sample under the race detector) and must return what the call returns alone; valid polygons additionally: every subset of rings given reversed (all subsets up to 3 rings; equality up to each ring's start vertex), and reverse-winding toggled (every ring with >= 3 vertices exactly reversed up to start vertex, shorter rings equal or reversed, nothing else changed); non-trivial = result with >= 2 polygons or a hole at some matrix",
		Required: func(string) []string {
			return []string{"calls:repetition", "calls:ids_permuted", "calls:ring_direction", "calls:reverse_winding", "result_with_several_polygons_or_holes", "valid_input"}
		},
		MinNonTriv:  500,
		Assumptions: []string{"'every process' is sampled by 1 + 3 process generations per case on one machine/architecture", "ring direction and reverse winding compared up to rotation of the start vertex"},
		Technique:   "runtime monitor: metamorphic equality (repetition, fresh processes, ring direction, id order, winding flag)",
	})
}
