// Package grid derives, independently of texel's pointindex, the integer pixel grids texel is specified to use
// for a tile matrix set and a list of requested tile matrix ids. It also builds synthetic dyadic tile matrix sets.
package grid

import (
	"fmt"
	"math"
	"sort"
	"strconv"
	"sync"

	"verifharness/oracle"

	"github.com/pdok/texel/intgeom"
	"github.com/pdok/texel/tms20"
)

// Spec names a tile matrix set: a built-in one, or a synthetic dyadic one.
type Spec struct {
	Name       string   `json:"name,omitempty"`       // built-in id
	Depth      int      `json:"depth,omitempty"`      // synthetic: tile matrices 0..Depth
	Cell       float64  `json:"cell,omitempty"`       // synthetic: cell size of the deepest matrix
	Origin     float64  `json:"origin,omitempty"`     // synthetic: x (and y unless OriginY) of the bottom-left corner
	OriginY    *float64 `json:"originY,omitempty"`    // synthetic: y of the bottom-left corner when different
	TopLeft    bool     `json:"topLeft,omitempty"`    // synthetic: corner of origin top-left instead of bottom-left
	TileWidth  uint     `json:"tileWidth,omitempty"`  // synthetic: tile width=height, default 1 (the tool takes floor(log2) of it)
	RootMatrix uint     `json:"rootMatrix,omitempty"` // synthetic: matrix 0 is RootMatrix x RootMatrix tiles (default 1)
	AxesXY     bool     `json:"axesXY,omitempty"`     // synthetic with OriginY: the document lists the origin as [y, x] under orderedAxes X,Y (which tms20 swaps for an unknown CRS), so that the same two numbers mean the other point
	ShiftX     float64  `json:"shiftX,omitempty"`     // built-in: every point of origin translated by (ShiftX, ShiftY), in document axis order
	ShiftY     float64  `json:"shiftY,omitempty"`
	// Meta (built-in): variants of the INFORMATIVE members, which must not influence any result: bit 0 = a boundingBox that
	// starts exactly in the point of origin and whose opposite corner is slightly off the computed one; bit 1 = orderedAxes
	// spelled differently (MetaAxes); the oracle facts of such a set are those of the set without the variation.
	Meta      int      `json:"meta,omitempty"`
	MetaAxes  []string `json:"metaAxes,omitempty"`
	MetaSlack float64  `json:"metaSlack,omitempty"` // fraction of the root cell size by which the far corner of the box is off
}

func (s Spec) String() string {
	if s.Name != "" {
		n := s.Name
		if s.ShiftX != 0 || s.ShiftY != 0 {
			n = fmt.Sprintf("%s+(%g,%g)", s.Name, s.ShiftX, s.ShiftY)
		}
		if s.Meta != 0 {
			n += fmt.Sprintf("~meta(%d,%v,%g)", s.Meta, s.MetaAxes, s.MetaSlack)
		}
		return n
	}
	oy := s.Origin
	if s.OriginY != nil {
		oy = *s.OriginY
	}
	extra := ""
	if s.RootMatrix > 1 {
		extra += fmt.Sprintf(",root=%dx%d", s.RootMatrix, s.RootMatrix)
	}
	if s.AxesXY {
		extra += ",axes=X,Y(swapped)"
	}
	return fmt.Sprintf("dyadic(depth=%d,cell=%g,origin=%g/%g,topLeft=%v,tile=%d%s)", s.Depth, s.Cell, s.Origin, oy, s.TopLeft, max(s.TileWidth, 1), extra)
}

type fakeCRS struct{}

func (fakeCRS) Description() string { return "" }
func (fakeCRS) Authority() string   { return "" }
func (fakeCRS) Version() string     { return "" }
func (fakeCRS) Code() string        { return "" }

// Build returns the tile matrix set for a spec.
func Build(s Spec) (tms20.TileMatrixSet, error) {
	if s.Name != "" {
		t, err := tms20.LoadEmbeddedTileMatrixSet(s.Name)
		if err != nil || (s.ShiftX == 0 && s.ShiftY == 0 && s.Meta == 0) {
			return t, err
		}
		if s.Meta != 0 {
			c := t // shallow copy: the tile matrices (and their origin pointers) are shared with the embedded set
			if s.Meta&2 != 0 {
				c.OrderedAxes = append([]string{}, s.MetaAxes...)
			}
			if s.Meta&1 != 0 {
				bl, tr, err := t.MatrixBoundingBox(0)
				if err != nil {
					return t, err
				}
				root := t.TileMatrices[0]
				d := s.MetaSlack * root.CellSize
				ll, ur := [2]float64{bl[0], bl[1]}, [2]float64{tr[0], tr[1]}
				if root.CornerOfOrigin == tms20.BottomLeft { // the origin corner stays exact, the opposite one moves
					ur[0], ur[1] = ur[0]+d, ur[1]+d
				} else {
					ur[0], ll[1] = ur[0]+d, ll[1]-d
				}
				if yx, err := tms20.IsLatLon(t.CRS); err == nil && yx {
					ll, ur = [2]float64{ll[1], ll[0]}, [2]float64{ur[1], ur[0]}
				}
				pll, pur := tms20.TwoDPoint(ll), tms20.TwoDPoint(ur)
				c.BoundingBox = &tms20.TwoDBoundingBox{LowerLeft: &pll, UpperRight: &pur, CRS: t.CRS}
			}
			return c, nil
		}
		// a translated copy: same matrices, every point of origin moved by the same vector (the embedded value is not touched)
		c := t
		// the id stays the same: an id is a label, not a key
		c.BoundingBox = nil
		c.TileMatrices = make(map[tms20.TMID]tms20.TileMatrix, len(t.TileMatrices))
		for id, tm := range t.TileMatrices {
			if tm.PointOfOrigin != nil {
				o := tms20.TwoDPoint([2]float64{tm.PointOfOrigin[0] + s.ShiftX, tm.PointOfOrigin[1] + s.ShiftY})
				tm.PointOfOrigin = &o
			}
			c.TileMatrices[id] = tm
		}
		return c, nil
	}
	tw := max(s.TileWidth, 1)
	ox, oy := s.Origin, s.Origin
	axes := []string{"X", "Y"} // tms20 falls back to orderedAxes for an unknown CRS and then swaps "x,y"; harmless when ox==oy
	if s.OriginY != nil {
		oy = *s.OriginY
		axes = []string{"Y", "X"} // not swapped by tms20: the point is read as x,y
	}
	rm := max(s.RootMatrix, 1)
	// all synthetic sets carry the same (legal, non-empty) identifier: an id is a label, not a key
	t := tms20.TileMatrixSet{ID: "VerifSynthetic", CRS: fakeCRS{}, OrderedAxes: axes, TileMatrices: map[tms20.TMID]tms20.TileMatrix{}}
	extent := s.Cell * float64(tw) * float64(rm) * float64(uint(1)<<uint(s.Depth))
	for id := 0; id <= s.Depth; id++ {
		cs := s.Cell * float64(uint(1)<<uint(s.Depth-id))
		org := [2]float64{ox, oy}
		corner := tms20.BottomLeft
		if s.TopLeft {
			corner = tms20.TopLeft
			org = [2]float64{ox, oy + extent}
		}
		if s.AxesXY && s.OriginY != nil {
			t.OrderedAxes = []string{"X", "Y"}
			org = [2]float64{org[1], org[0]}
		}
		t.TileMatrices[id] = tms20.TileMatrix{ID: strconv.Itoa(id), ScaleDenominator: cs / tms20.StandardizedRenderingPixelSize, CellSize: cs,
			CornerOfOrigin: corner, PointOfOrigin: internPoint(org), TileWidth: tw, TileHeight: tw, MatrixWidth: rm << uint(id), MatrixHeight: rm << uint(id)}
	}
	return t, nil
}

// internPoint: equal points of origin share ONE pointer, across tile matrices and across sets (pointers to immutable,
// equal values: whoever keys on the pointer must not take it for the identity of a set).
var (
	internMu  sync.Mutex
	internTab = map[[2]float64]*tms20.TwoDPoint{}
)

func internPoint(p [2]float64) *tms20.TwoDPoint {
	internMu.Lock()
	defer internMu.Unlock()
	if q, ok := internTab[p]; ok {
		return q
	}
	q := tms20.TwoDPoint(p)
	internTab[p] = &q
	return &q
}

// Set is a tile matrix set with the integer facts the oracles need.
type Set struct {
	Spec      Spec
	TMS       tms20.TileMatrixSet
	LevelDiff uint
	OX, OY    int64 // integer bottom-left of matrix 0
	MaxX      int64 // integer right border (exclusive)
	MaxY      int64 // integer top border (exclusive)
	Span      int64 // x span; the tool derives the pixel size from it alone
	SpanY     int64 // y span after the same float -> integer conversion (may differ from Span by a unit)
	BL, TR    [2]float64
	IDs       []int // sorted ids present
}

func NewSet(s Spec) (*Set, error) {
	t, err := Build(s)
	if err != nil {
		return nil, err
	}
	if s.Meta != 0 {
		// informative members do not matter: the facts are those of the plain set, the tool gets the variant
		base := s
		base.Meta, base.MetaAxes, base.MetaSlack = 0, nil, 0
		gs, err := NewSet(base)
		if err != nil {
			return nil, err
		}
		v := *gs
		v.Spec, v.TMS = s, t
		return &v, nil
	}
	return FromTMS(s, t)
}

func FromTMS(s Spec, t tms20.TileMatrixSet) (*Set, error) {
	root, ok := t.TileMatrices[0]
	if !ok {
		return nil, fmt.Errorf("no tile matrix 0")
	}
	bl, tr, err := t.MatrixBoundingBox(0)
	if err != nil {
		return nil, err
	}
	gs := &Set{Spec: s, TMS: t, BL: bl, TR: tr}
	tw := root.TileWidth
	ld := uint(0)
	for tw > 1 {
		tw >>= 1
		ld++
	}
	gs.LevelDiff = ld + 4
	gs.OX, gs.OY = intgeom.FromGeomOrd(bl[0]), intgeom.FromGeomOrd(bl[1])
	gs.MaxX, gs.MaxY = intgeom.FromGeomOrd(tr[0]), intgeom.FromGeomOrd(tr[1])
	gs.Span = gs.MaxX - gs.OX
	gs.SpanY = gs.MaxY - gs.OY
	for id := range t.TileMatrices {
		gs.IDs = append(gs.IDs, id)
	}
	sort.Ints(gs.IDs)
	return gs, nil
}

// Level of a tile matrix id.
func (gs *Set) Level(id int) uint { return uint(id) + gs.LevelDiff }

// Request is the grid family for one list of requested ids.
type Request struct {
	Set     *Set
	Deepest int
	D       uint  // level of the deepest requested id
	ResD    int64 // integer pixel size at D
	Round   bool  // extent divides evenly into pixels at D
}

func (gs *Set) Request(ids []int) Request {
	deepest := ids[0]
	for _, id := range ids {
		if id > deepest {
			deepest = id
		}
	}
	d := gs.Level(deepest)
	r := Request{Set: gs, Deepest: deepest, D: d}
	if d < 62 {
		r.ResD = gs.Span / (int64(1) << d)
		r.Round = gs.Span%(int64(1)<<d) == 0
	}
	return r
}

// Grid for tile matrix id z under this request.
func (r Request) Grid(z int) oracle.Grid {
	shift := r.D - r.Set.Level(z)
	return oracle.Grid{OX: r.Set.OX, OY: r.Set.OY, Pix: r.ResD << shift, N: int64(1) << r.Set.Level(z)}
}

// CoveredMax is the exclusive right/top end of what the integer grid covers (<= MaxX when not round).
func (r Request) CoveredMax() (int64, int64) {
	return r.Set.OX + r.ResD<<r.D, r.Set.OY + r.ResD<<r.D
}

// InsideExtent: is the integer point inside the half-open extent of the tile matrix set?
func (gs *Set) InsideExtent(p oracle.P) bool {
	return p[0] >= gs.OX && p[0] < gs.MaxX && p[1] >= gs.OY && p[1] < gs.MaxY
}

// ToFloat finds a float64 f with FromGeomOrd(f) == v (at most 8 nudges); ok=false if none found.
func ToFloat(v int64) (float64, bool) {
	f := float64(v) / 1e10
	for k := 0; k < 8; k++ {
		got := intgeom.FromGeomOrd(f)
		if got == v {
			return f, true
		}
		if got < v {
			f = math.Nextafter(f, math.Inf(1))
		} else {
			f = math.Nextafter(f, math.Inf(-1))
		}
	}
	return f, intgeom.FromGeomOrd(f) == v
}

// ToFloatPoint converts an integer point; ok=false when an ordinate has no float pre-image nearby.
func ToFloatPoint(p oracle.P) ([2]float64, bool) {
	x, ok1 := ToFloat(p[0])
	y, ok2 := ToFloat(p[1])
	return [2]float64{x, y}, ok1 && ok2
}

// FromFloatPoint is the tool's float -> integer conversion.
func FromFloatPoint(p [2]float64) oracle.P {
	ip := intgeom.FromGeomPoint(p)
	return oracle.P{ip[0], ip[1]}
}
