//go:build verif

package fuzz

import (
	"fmt"
	"io"
	"log"
	"testing"

	"verifharness/fuzzcase"
	"verifharness/fw"
	"verifharness/gen"
	"verifharness/grid"

	"github.com/go-spatial/geom"
	"github.com/pdok/texel/snap"
	"github.com/pdok/texel/verifhook"
)

func seedRings(rng *fw.Rng, kind string) [][][2]byte {
	lp := gen.ByName(kind, rng, int64(12+rng.Intn(40)))
	var out [][][2]byte
	for _, r := range lp {
		var br [][2]byte
		for _, p := range r {
			x, y := p[0]+8, p[1]+8
			if x < 0 || y < 0 || x > 254 || y > 254 {
				continue
			}
			br = append(br, [2]byte{byte(x), byte(y)})
		}
		if len(br) > 0 {
			out = append(out, br)
		}
	}
	return out
}

// FuzzSnap: coverage-guided inputs through snap.SnapPolygon; the oracle is C06's (normal return, step budgets).
func FuzzSnap(f *testing.F) {
	log.SetOutput(io.Discard)
	rng := fw.NewRng(20261003)
	for _, kind := range []string{"motif", "junk", "spiky", "comb", "star", "rectholes", "border", "sliver", "grow", "angle"} {
		for i := 0; i < 12; i++ {
			f.Add(fuzzcase.Encode(byte(rng.Intn(3)), byte(1+rng.Intn(7)), rng.Bool(), rng.Bool(), byte(rng.Intn(256)), byte(rng.Intn(256)), seedRings(rng, kind)))
		}
	}
	f.Fuzz(func(t *testing.T, data []byte) {
		c := fuzzcase.Decode(data)
		if c == nil {
			return
		}
		gs, err := grid.NewSet(c.Spec)
		if err != nil {
			return
		}
		nv := 8
		poly := make(geom.Polygon, len(c.Poly))
		for i, r := range c.Poly {
			poly[i] = r
			nv += len(r)
		}
		n := nv * (1 + 3*len(c.IDs)) * 4 // generous work size: routed chains are at most a few times the vertex count here
		verifhook.SetBudget(8 * n * n)
		verifhook.SetSiteBudget("kmpSearchAll", 16*n*n)
		verifhook.SetSiteBudget("kmpCorpus", 16*n*n)
		verifhook.SetSiteBudget("kmpSearch", 64*n*n*n)
		verifhook.SetSiteBudget("kmpTable", 64*n*n*n)
		defer func() {
			verifhook.SetBudget(0)
			if r := recover(); r != nil {
				t.Fatalf("C06: SnapPolygon did not return normally: %s", fmt.Sprint(r))
			}
		}()
		snap.SnapPolygon(poly, gs.TMS, c.IDs, snap.Config{KeepPointsAndLines: c.Keep, ReverseWindingOrder: c.Reverse})
	})
}
