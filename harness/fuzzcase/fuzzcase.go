// Package fuzzcase maps the byte strings of Go's coverage-guided fuzzer to snapping calls (and back, for seeds).
// The grids are round (dyadic and NetherlandsRDNewQuad up to id 13), every vertex is inside the extent:
// by C06 any panic or step-budget overrun on such a call is a violation.
package fuzzcase

import (
	"verifharness/grid"
	"verifharness/oracle"
)

type Call struct {
	Spec    grid.Spec
	IDs     []int
	Keep    bool
	Reverse bool
	Poly    [][][2]float64
}

const MaxVertices = 96

var specs = []grid.Spec{{Depth: 4, Cell: 16}, {Name: "NetherlandsRDNewQuad"}, {Depth: 3, Cell: 16, Origin: -8}}
var bases = []int{0, 9, 0}

// Decode: b0 grid, b1 id mask (3 bits) and flags, b2 b3 window position, then vertex bytes x,y on the quarter-pixel
// lattice of the deepest requested matrix; 0xFF 0xFF starts a new ring.
func Decode(data []byte) *Call {
	if len(data) < 6 {
		return nil
	}
	gi := int(data[0]) % len(specs)
	c := &Call{Spec: specs[gi], Keep: data[1]&8 != 0, Reverse: data[1]&16 != 0}
	for b := 0; b < 3; b++ {
		if data[1]>>uint(b)&1 == 1 {
			c.IDs = append(c.IDs, bases[gi]+b)
		}
	}
	if len(c.IDs) == 0 {
		c.IDs = []int{bases[gi] + 2}
	}
	gs, err := grid.NewSet(c.Spec)
	if err != nil {
		return nil
	}
	req := gs.Request(c.IDs)
	pix := req.ResD
	q := pix / 4
	n := int64(1) << req.D
	// window of up to 64 pixels somewhere inside; position from two bytes
	size := min(int64(64), n-2)
	px := 1 + (int64(data[2])*977+int64(data[3])*13)%(n-size-1)
	py := 1 + (int64(data[3])*733+int64(data[2])*29)%(n-size-1)
	var ring [][2]float64
	nv := 0
	flush := func() {
		if len(ring) > 0 {
			c.Poly = append(c.Poly, ring)
			ring = nil
		}
	}
	for i := 4; i+1 < len(data) && nv < MaxVertices; i += 2 {
		if data[i] == 0xFF && data[i+1] == 0xFF {
			flush()
			if len(c.Poly) >= 4 {
				break
			}
			continue
		}
		ip := oracle.P{gs.OX + px*pix + int64(data[i])%(4*size)*q, gs.OY + py*pix + int64(data[i+1])%(4*size)*q}
		f, _ := grid.ToFloatPoint(ip)
		ring = append(ring, f)
		nv++
	}
	flush()
	if len(c.Poly) == 0 {
		return nil
	}
	return c
}

// Encode builds a seed input from lattice rings (coordinates 0..254).
func Encode(gridSel, idMask byte, keep, reverse bool, wx, wy byte, rings [][][2]byte) []byte {
	b1 := idMask & 7
	if keep {
		b1 |= 8
	}
	if reverse {
		b1 |= 16
	}
	out := []byte{gridSel, b1, wx, wy}
	for i, r := range rings {
		if i > 0 {
			out = append(out, 0xFF, 0xFF)
		}
		for _, p := range r {
			out = append(out, p[0], p[1])
		}
	}
	return out
}
