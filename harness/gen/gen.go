// Package gen: polygon generators on a quarter-pixel lattice. Units: lattice units (q); 4q = one pixel of the
// finest requested tile matrix. All randomness comes from the case's fw.Rng.
package gen

import (
	"math"
	"sort"

	"verifharness/fw"
	"verifharness/oracle"
)

type P = oracle.P

// Poly is a list of rings in lattice units.
type Poly [][]P

func star(rng *fw.Rng, cx, cy, rmin, rmax float64, k int) []P {
	angs := make([]float64, k)
	for i := range angs {
		angs[i] = rng.Float64() * 2 * math.Pi
	}
	sort.Float64s(angs)
	r := make([]P, 0, k)
	for _, a := range angs {
		rad := rmin + rng.Float64()*(rmax-rmin)
		p := P{int64(math.Round(cx + rad*math.Cos(a))), int64(math.Round(cy + rad*math.Sin(a)))}
		if len(r) > 0 && r[len(r)-1] == p {
			continue
		}
		r = append(r, p)
	}
	if len(r) > 1 && r[0] == r[len(r)-1] {
		r = r[:len(r)-1]
	}
	return r
}

// Star: star-shaped shell, optional small star holes, in window [0,W)x[0,W).
func Star(rng *fw.Rng, W int64) Poly {
	w := float64(W)
	cx, cy := w/2+rng.Float64()*w/8, w/2+rng.Float64()*w/8
	rmax := w * (0.15 + 0.3*rng.Float64())
	rmin := rmax * rng.Float64()
	p := Poly{star(rng, cx, cy, rmin, rmax, 3+rng.Intn(10))}
	for h := rng.Intn(3); h > 0; h-- {
		a := rng.Float64() * 2 * math.Pi
		d := rng.Float64() * rmin * 0.8
		hr := 0.5 + rng.Float64()*rmin*0.4
		p = append(p, star(rng, cx+d*math.Cos(a), cy+d*math.Sin(a), hr*rng.Float64(), hr, 3+rng.Intn(5)))
	}
	return p
}

// Comb: rectilinear comb with thin teeth and thin gaps (1..6 q wide).
func Comb(rng *fw.Rng, W int64) Poly {
	x := int64(rng.Intn(8))
	y0 := int64(rng.Intn(8))
	base := int64(1 + rng.Intn(8))
	var r []P
	r = append(r, P{x, y0})
	teeth := 1 + rng.Intn(4)
	var top []P
	cx := x
	for t := 0; t < teeth; t++ {
		tw := int64(1 + rng.Intn(6))
		th := int64(1 + rng.Intn(int(W/2)))
		top = append(top, P{cx, y0 + base + th}, P{cx + tw, y0 + base + th})
		cx += tw
		if t < teeth-1 {
			gw := int64(1 + rng.Intn(6))
			top = append(top, P{cx, y0 + base}, P{cx + gw, y0 + base})
			cx += gw
		}
	}
	r = append(r, P{cx, y0})
	for i := len(top) - 1; i >= 0; i-- {
		r = append(r, top[i])
	}
	return Poly{r}
}

// Sliver: thin triangle or quad.
func Sliver(rng *fw.Rng, W int64) Poly {
	a := P{rng.Int63n(W), rng.Int63n(W)}
	b := P{rng.Int63n(W), rng.Int63n(W)}
	c := P{b[0] + int64(rng.Intn(5)-2), b[1] + int64(rng.Intn(5)-2)}
	if rng.Intn(2) == 0 {
		return Poly{{a, b, c}}
	}
	d := P{a[0] + int64(rng.Intn(5)-2), a[1] + int64(rng.Intn(5)-2)}
	return Poly{{a, b, c, d}}
}

// Angle: random points sorted by angle around the centroid.
func Angle(rng *fw.Rng, W int64) Poly {
	k := 3 + rng.Intn(12)
	pts := make([]P, k)
	var sx, sy float64
	for i := range pts {
		pts[i] = P{rng.Int63n(W), rng.Int63n(W)}
		sx += float64(pts[i][0])
		sy += float64(pts[i][1])
	}
	sx /= float64(k)
	sy /= float64(k)
	sort.SliceStable(pts, func(i, j int) bool {
		return math.Atan2(float64(pts[i][1])-sy, float64(pts[i][0])-sx) < math.Atan2(float64(pts[j][1])-sy, float64(pts[j][0])-sx)
	})
	return Poly{pts}
}

// RectHoles: rectangle shell with rectangular/triangular holes close to the shell and to each other.
func RectHoles(rng *fw.Rng, W int64) Poly {
	x0, y0 := int64(rng.Intn(6)), int64(rng.Intn(6))
	x1, y1 := W-1-int64(rng.Intn(6)), W-1-int64(rng.Intn(6))
	p := Poly{{{x0, y0}, {x1, y0}, {x1, y1}, {x0, y1}}}
	if x1-x0 < 4 || y1-y0 < 4 {
		return p
	}
	for h := 1 + rng.Intn(3); h > 0; h-- {
		hx0 := x0 + 1 + rng.Int63n(x1-x0-2)
		hy0 := y0 + 1 + rng.Int63n(y1-y0-2)
		hx1 := hx0 + 1 + rng.Int63n(x1-hx0)
		hy1 := hy0 + 1 + rng.Int63n(y1-hy0)
		if hx1 >= x1 || hy1 >= y1 {
			continue
		}
		if rng.Intn(2) == 0 {
			p = append(p, []P{{hx0, hy0}, {hx0, hy1}, {hx1, hy1}, {hx1, hy0}})
		} else {
			p = append(p, []P{{hx0, hy0}, {hx0, hy1}, {hx1, hy0}})
		}
	}
	return p
}

// Spiky: star with alternating hub/tip radii: many spikes through one pixel.
func Spiky(rng *fw.Rng, W int64) Poly {
	w := float64(W)
	cx, cy := w/2+rng.Float64()*4, w/2+rng.Float64()*4
	k := 2 * (2 + rng.Intn(6))
	angs := make([]float64, k)
	for i := range angs {
		angs[i] = rng.Float64() * 2 * math.Pi
	}
	sort.Float64s(angs)
	hub := 0.5 + rng.Float64()*6
	var r []P
	for i, a := range angs {
		rad := hub * (0.3 + 0.7*rng.Float64())
		if i%2 == 1 || rng.Intn(5) == 0 {
			rad = hub + rng.Float64()*(w/2-hub-1)
		}
		p := P{int64(math.Round(cx + rad*math.Cos(a))), int64(math.Round(cy + rad*math.Sin(a)))}
		if len(r) > 0 && r[len(r)-1] == p {
			continue
		}
		r = append(r, p)
	}
	if len(r) > 1 && r[0] == r[len(r)-1] {
		r = r[:len(r)-1]
	}
	return Poly{r}
}

// Grow: random simple polygon grown by inserting points into edges while staying simple (winding, non-star shapes).
func Grow(rng *fw.Rng, W int64) Poly {
	r := []P{{rng.Int63n(W), rng.Int63n(W)}, {rng.Int63n(W), rng.Int63n(W)}, {rng.Int63n(W), rng.Int63n(W)}}
	if !oracle.RingSimple(r) || oracle.Area2(r).Sign() == 0 {
		return Poly{r}
	}
	target := 4 + rng.Intn(14)
	for tries := 0; tries < 200 && len(r) < target; tries++ {
		i := rng.Intn(len(r))
		p := P{rng.Int63n(W), rng.Int63n(W)}
		nr := append(append(append([]P{}, r[:i+1]...), p), r[i+1:]...)
		if oracle.RingSimple(nr) {
			r = nr
		}
	}
	return Poly{r}
}

// Junk: arbitrary vertex sequences with repeats and step-backs, 1-3 rings, rings of 1-2 points included.
func Junk(rng *fw.Rng, W int64) Poly {
	nr := 1 + rng.Intn(3)
	p := make(Poly, nr)
	lat := int64([]int{1, 2, 4, 4}[rng.Intn(4)])
	for i := range p {
		k := 1 + rng.Intn(20)
		var r []P
		for j := 0; j < k; j++ {
			if j >= 2 && rng.Intn(4) == 0 {
				r = append(r, r[rng.Intn(len(r))])
				continue
			}
			r = append(r, P{rng.Int63n(W/lat+1) * lat, rng.Int63n(W/lat+1) * lat})
		}
		p[i] = r
	}
	if rng.Chance(1, 10) && len(p) > 1 { // duplicated ring
		p[len(p)-1] = append([]P{}, p[0]...)
	}
	return p
}

// Motif: grammar-generated repetitive chains on pixel centres: paths, back-tracks, zig-zags and repetitions
// (aimed at the spike removal). step = lattice units per pixel of the level aimed at (4, 8 or 16).
func Motif(rng *fw.Rng, W int64) Poly {
	step := int64(4) << uint(rng.Intn(3))
	cells := W / step
	if cells < 2 {
		cells = 2
	}
	centre := func(i, j int64) P { return P{i*step + step/2, j*step + step/2} }
	// alphabet of a few cells
	na := 2 + rng.Intn(5)
	alpha := make([]P, na)
	for i := range alpha {
		alpha[i] = centre(rng.Int63n(cells), rng.Int63n(cells))
	}
	var seq []P
	var build func(depth int) []P
	build = func(depth int) []P {
		var s []P
		n := 1 + rng.Intn(4)
		for k := 0; k < n; k++ {
			switch c := rng.Intn(10); {
			case c < 4 || depth <= 0:
				s = append(s, alpha[rng.Intn(na)])
			case c < 6: // back-track: X reverse(X)
				x := build(depth - 1)
				s = append(s, x...)
				for i := len(x) - 2; i >= 0; i-- {
					s = append(s, x[i])
				}
			case c < 8: // repetition: X X ... X
				x := build(depth - 1)
				for r := 1 + rng.Intn(4); r > 0; r-- {
					s = append(s, x...)
				}
			default: // zig-zag a b a b a
				a, b := alpha[rng.Intn(na)], alpha[rng.Intn(na)]
				for r := 2 + rng.Intn(5); r > 0; r-- {
					if r%2 == 0 {
						s = append(s, a)
					} else {
						s = append(s, b)
					}
				}
			}
		}
		return s
	}
	seq = build(2 + rng.Intn(2))
	if len(seq) > 60 {
		seq = seq[:60]
	}
	if rng.Chance(1, 12) {
		// a long walk over distinct neighbouring cells, walked exactly back (and sometimes forth again)
		L := 20 + rng.Intn(110)
		x, y := int64(0), int64(0)
		dx, dy := int64(1), int64(0)
		var walk []P
		for i := 0; i < L; i++ {
			walk = append(walk, centre(x, y))
			if rng.Chance(1, 6) {
				dx, dy = -dy, dx
			}
			x, y = x+dx, y+dy
			if x < 0 || y < 0 { // stay in the positive quadrant
				x, y = x-2*dx, y-2*dy
				dx, dy = -dx, -dy
			}
		}
		seq = append([]P{}, walk...)
		for rep := 0; rep <= rng.Intn(3); rep++ {
			for i := len(walk) - 2; i >= 0; i-- {
				seq = append(seq, walk[i])
			}
			if rng.Bool() {
				seq = append(seq, walk[1:]...)
			}
		}
	}
	// sometimes a honest triangle/square in front or behind
	if rng.Bool() {
		a := centre(rng.Int63n(cells), rng.Int63n(cells))
		seq = append(seq, a, P{a[0] + step, a[1]}, P{a[0] + step, a[1] + step})
	}
	// jitter inside the pixel sometimes (stays in the same pixel: |d| < step/2)
	if rng.Bool() {
		for i := range seq {
			seq[i] = P{seq[i][0] + int64(rng.Intn(int(step/2))) - step/4, seq[i][1] + int64(rng.Intn(int(step/2))) - step/4}
		}
	}
	p := Poly{seq}
	if rng.Chance(1, 4) {
		p = append(p, build(1))
	}
	return p
}

// Border: vertices exactly on pixel borders / corners, edges along borders, edges through corners.
// step = lattice units per pixel (4 for the finest level).
func Border(rng *fw.Rng, W int64) Poly {
	step := int64(4) << uint(rng.Intn(2))
	cells := W / step
	if cells < 3 {
		cells = 3
	}
	k := 3 + rng.Intn(8)
	pts := make([]P, k)
	var sx, sy float64
	for i := range pts {
		x, y := rng.Int63n(cells*step), rng.Int63n(cells*step)
		switch rng.Intn(4) {
		case 0: // corner
			x, y = x/step*step, y/step*step
		case 1:
			x = x / step * step
		case 2:
			y = y / step * step
		}
		pts[i] = P{x, y}
		sx += float64(x)
		sy += float64(y)
	}
	sx /= float64(k)
	sy /= float64(k)
	sort.SliceStable(pts, func(i, j int) bool {
		return math.Atan2(float64(pts[i][1])-sy, float64(pts[i][0])-sx) < math.Atan2(float64(pts[j][1])-sy, float64(pts[j][0])-sx)
	})
	return Poly{pts}
}

// Moat: nested topology. A land rectangle with a C-shaped moat hole that leaves an island attached to the land by a thin
// bridge (1-3 q wide), and a lake (hole) on the island. When the bridge collapses the island becomes a second outer ring
// nested inside the land's moat hole, and the lake has to be matched to the island, not to the land.
// u = lattice units per "cell" of the construction (4 = one finest pixel).
func Moat(rng *fw.Rng, W int64) Poly {
	u := int64(fw.Pick(rng, []int{2, 4, 4, 4, 8}))
	lake := int64(3+rng.Intn(3)) * u
	im := int64(1+rng.Intn(2)) * u // island margin around the lake
	mw := int64(1+rng.Intn(3)) * u // moat width
	lm := int64(1+rng.Intn(2)) * u // land margin around the moat
	b0 := lm + mw
	b1 := b0 + 2*im + lake
	a0, a1 := lm, b1+mw
	s1 := a1 + lm
	bw := int64(1 + rng.Intn(3)) // bridge width in q
	c := b0 + 1 + rng.Int63n(max(b1-b0-bw-1, 1))
	shell := []P{{0, 0}, {s1, 0}, {s1, s1}, {0, s1}}
	moat := []P{{a1, c + bw}, {a1, a1}, {a0, a1}, {a0, a0}, {a1, a0}, {a1, c}, {b1, c}, {b1, b0}, {b0, b0}, {b0, b1}, {b1, b1}, {b1, c + bw}}
	l0 := b0 + im
	lk := []P{{l0, l0}, {l0 + lake, l0}, {l0 + lake, l0 + lake}, {l0, l0 + lake}}
	p := Poly{shell, moat, lk}
	if rng.Chance(1, 3) { // a second lake-less island variant: drop the lake
		p = Poly{shell, moat}
	}
	// rotate by k*90 degrees about the centre and start every ring at a random vertex
	k := rng.Intn(4)
	for ri := range p {
		for vi, v := range p[ri] {
			x, y := v[0], v[1]
			for r := 0; r < k; r++ {
				x, y = s1-y, x
			}
			p[ri][vi] = P{x, y}
		}
		st := rng.Intn(len(p[ri]))
		p[ri] = append(append([]P{}, p[ri][st:]...), p[ri][:st]...)
	}
	_ = W
	return p
}

// Nest: islands within lakes within islands, 2-4 levels deep, as ONE polygon: every lake is a C-shaped moat hole whose
// isthmus (1-3 q wide) keeps the island attached to the land around it, the innermost island carries a plain pond.
// When the isthmuses close under snapping the result has a chain of nested shells, and every hole has several enclosing
// candidates. The holes are listed in random order (not from the outside inwards).
func Nest(rng *fw.Rng, W int64) Poly {
	u := int64(fw.Pick(rng, []int{2, 4, 4, 8}))
	depth := 2 + rng.Intn(3)
	type lvl struct{ lm, mw int64 }
	lv := make([]lvl, depth)
	total := int64(0)
	for i := range lv {
		lv[i] = lvl{int64(1+rng.Intn(2)) * u, int64(1+rng.Intn(3)) * u}
		total += 2 * (lv[i].lm + lv[i].mw)
	}
	im := int64(1+rng.Intn(2)) * u
	pond := int64(2+rng.Intn(4)) * u
	s1 := total + 2*im + pond
	p := Poly{{{0, 0}, {s1, 0}, {s1, s1}, {0, s1}}}
	off := int64(0)
	for i := range lv {
		a0 := off + lv[i].lm
		a1 := s1 - a0
		b0 := a0 + lv[i].mw
		b1 := s1 - b0
		bw := int64(1 + rng.Intn(3))
		c := b0 + 1 + rng.Int63n(max(b1-b0-bw-1, 1))
		moat := []P{{a1, c + bw}, {a1, a1}, {a0, a1}, {a0, a0}, {a1, a0}, {a1, c}, {b1, c}, {b1, b0}, {b0, b0}, {b0, b1}, {b1, b1}, {b1, c + bw}}
		// the isthmus on a random side: rotate this moat alone about the centre
		for k := rng.Intn(4); k > 0; k-- {
			for vi, v := range moat {
				moat[vi] = P{s1 - v[1], v[0]}
			}
		}
		p = append(p, moat)
		off = b0
	}
	l0 := off + im
	if rng.Chance(3, 4) {
		p = append(p, []P{{l0, l0}, {l0 + pond, l0}, {l0 + pond, l0 + pond}, {l0, l0 + pond}})
	}
	// holes in random order, every ring starting at a random vertex
	holes := p[1:]
	perm := rng.Perm(len(holes))
	sh := make(Poly, len(holes))
	for i, j := range perm {
		sh[i] = holes[j]
	}
	copy(p[1:], sh)
	for ri := range p {
		st := rng.Intn(len(p[ri]))
		p[ri] = append(append([]P{}, p[ri][st:]...), p[ri][:st]...)
	}
	_ = W
	return p
}

// Lobes: a shell that a sub-pixel neck pinches into two lobes whose bounding boxes overlap: a block with a hole, and a
// staircase-shaped lobe that stands beside the block and hangs over it. After snapping at the level where a pixel is 4 q the
// neck closes and the result has two outer rings; the hole must go to the block although every one of its vertices also lies
// inside the staircase's bounding box, in the columns of the staircase's vertical edges. All dimensions random, any of the 8
// symmetries of the square.
func Lobes(rng *fw.Rng, W int64) Poly {
	o := func() int64 { return int64(1 + rng.Intn(3)) } // offset inside a pixel (q)
	at := func(col, row int64) P { return P{4*col + o(), 4*row + o()} }
	bw := int64(12 + rng.Intn(19))     // block: columns 3..bw
	bh := int64(4 + rng.Intn(4))       // block: rows 0..bh
	s1 := int64(5 + rng.Intn(3))       // first riser of the staircase (column)
	s2 := s1 + int64(3+rng.Intn(6))    // second riser
	a := bh + 1 + int64(3+rng.Intn(4)) // row of the first step
	top := a + int64(4+rng.Intn(6))
	if s2 >= bw {
		s2 = bw - 1
	}
	nl, nr := int64(16+1), int64(16+3) // the neck: both sides in pixel column 4
	shell := []P{at(3, 0), at(bw, 0), at(bw, bh), {nr, 4*bh + 2}, {nr, 4*(bh+1) + 2},
		at(s1, bh+1), at(s1, a), at(s2, a), at(s2, top), at(0, top), at(0, 0), at(1, 0), at(1, bh+1),
		{nl, 4*(bh+1) + 2}, {nl, 4*bh + 2}, at(3, bh)}
	var hole []P
	r0 := int64(1 + rng.Intn(int(bh-2)))
	switch rng.Intn(4) {
	case 0, 1: // thin triangle with its vertices in the riser columns
		hole = []P{at(s1, r0), at(s1, r0+1), at(s2, r0+1)}
	case 2: // box between the riser columns
		hole = []P{at(s1, r0), at(s2, r0), at(s2, r0+1), at(s1, r0+1)}
	default: // anywhere in the block
		c0 := 5 + rng.Int63n(bw-8)
		hole = []P{at(c0, r0), at(c0+1+rng.Int63n(3), r0), at(c0+rng.Int63n(3), r0+1)}
	}
	p := Poly{shell, hole}
	if rng.Chance(1, 4) {
		p = Poly{shell}
	}
	S := 4*max(bw, top) + 4
	k, mirror := rng.Intn(4), rng.Bool()
	for ri := range p {
		for vi, v := range p[ri] {
			x, y := v[0], v[1]
			if mirror {
				x = S - x
			}
			for r := 0; r < k; r++ {
				x, y = S-y, x
			}
			p[ri][vi] = P{x, y}
		}
		st := rng.Intn(len(p[ri]))
		p[ri] = append(append([]P{}, p[ri][st:]...), p[ri][:st]...)
	}
	_ = W
	return p
}

// LongFlat: a shell whose bottom edge runs 2^k pixels (k up to D-4, D = deepest level) and rises by one or two pixels,
// with a small hole next to one of its ends, in the pixel row of that end; the far end of the long edge sits on (or just
// inside) the inclusive side of its pixel. Containment tests of the hole's vertices against such an edge work on slopes of
// 2^-k at ordinates of 2^D pixels. Any of the 8 symmetries of the square. Coordinates in q (a pixel is 4 q).
func LongFlat(rng *fw.Rng, D int) Poly {
	kmax := D - 4
	if kmax < 6 {
		kmax = 6
	}
	k := 6 + rng.Intn(kmax-5)
	if kmax > 16 && rng.Chance(2, 3) { // on deep grids mostly very long edges
		k = kmax - rng.Intn(8)
	}
	dpx := int64(1)<<uint(k) + int64(fw.Pick(rng, []int{0, 0, 0, -1, 1, 3}))
	d := 4 * dpx
	rise := int64(fw.Pick(rng, []int{1, 1, 2})) * 4
	h := int64(20+rng.Intn(40)) * 4
	qy := rise + int64(fw.Pick(rng, []int{0, 0, 1})) // on the inclusive (bottom) side of its pixel row, or just inside
	qx := d + int64(1+rng.Intn(3))
	shell := []P{{2, 2}, {qx, qy}, {qx, h + 2}, {2, h + 2}}
	var hole []P
	if rng.Chance(3, 4) { // next to the far end: first vertex in the pixel left of that end, in its row
		hole = []P{{d - 2, rise + 2}, {d - 18, rise + 18}, {d - 2, rise + 18}}
	} else { // next to the near end
		hole = []P{{6 + 4, 6}, {6 + 4, 22}, {6 + 20, 22}}
	}
	p := Poly{shell, hole}
	S := max(qx, h+2) + 2
	kk, mirror := rng.Intn(4), rng.Bool()
	for ri := range p {
		for vi, v := range p[ri] {
			x, y := v[0], v[1]
			if mirror {
				x = S - x
			}
			for r := 0; r < kk; r++ {
				x, y = S-y, x
			}
			p[ri][vi] = P{x, y}
		}
		st := rng.Intn(len(p[ri]))
		p[ri] = append(append([]P{}, p[ri][st:]...), p[ri][:st]...)
	}
	return p
}

// Saw: in units of 1/64 pixel (the caller places it with q = pixel/64). A valid ring whose snapped vertex sequence is
// A p1..pk A B A B A B q A B: a body, then T thin teeth from pixel A into the neighbouring pixel B (20 to 10 teeth per pixel
// width), a detour through one or two foreign pixels back into A, E more teeth, and the ring's vertex array starts in A right
// behind the last tooth. This is the input class that reaches the multi-period branches of the zigzag removal with a valid
// polygon. T, E, tooth pitch, body and detour random; any of the 8 symmetries; the start vertex is rotated in half of the cases.
func Saw(rng *fw.Rng, W int64) Poly {
	u := func(x, y float64) P { return P{int64(math.Round(x * 64)), int64(math.Round((1 - y) * 64))} } // mirrored in y = 0.5 as designed: ccw
	T := 2 + rng.Intn(5)
	E := rng.Intn(2)
	pitch := 0.05 + 0.01*float64(rng.Intn(6))
	if float64(T+E+2)*pitch > 0.62 {
		pitch = 0.62 / float64(T+E+2)
	}
	jit := func() float64 { return float64(rng.Intn(7)-3) / 64 }
	x := 0.28
	ring := []P{}
	var teeth []P
	for i := 0; i < T; i++ {
		teeth = append(teeth, u(x, .50+jit()), u(x+pitch/2, 1.5+jit()))
		x += pitch
	}
	// detour: through the pixel diagonally across from B, sometimes through two pixels
	detour := []P{u(2.3+jit(), 1.6+jit())}
	if rng.Chance(1, 3) {
		detour = append(detour, u(2.6+jit(), 0.6+jit()))
	}
	var extra []P
	x += pitch
	a0 := u(x-pitch*0.6, .30) // in A, below the bases, left of the extra tooth: the closing edge comes down beside that tooth
	for i := 0; i < E; i++ {
		extra = append(extra, u(x, .50+jit()), u(x+pitch/2, 1.3+jit()))
		x += pitch
	}
	body := []P{u(2.5+float64(rng.Intn(40))/64, -.50-float64(rng.Intn(20))/64), u(1.4+float64(rng.Intn(20))/64, -1.5-float64(rng.Intn(30))/64)}
	if rng.Chance(1, 3) {
		body = append(body[:1], append([]P{u(3.2, -2.2)}, body[1:]...)...)
	}
	ring = append(ring, a0)
	ring = append(ring, body...)
	ring = append(ring, teeth...)
	if E > 0 || rng.Chance(2, 3) {
		ring = append(ring, detour...)
	}
	ring = append(ring, extra...)
	// symmetries about the corner of pixel A
	k, mirror := rng.Intn(4), rng.Bool()
	for i, v := range ring {
		xx, yy := v[0], v[1]
		if mirror {
			xx = 64 - xx
		}
		for r := 0; r < k; r++ {
			xx, yy = 64-yy, xx
		}
		ring[i] = P{xx, yy}
	}
	if rng.Bool() {
		st := rng.Intn(len(ring))
		ring = append(append([]P{}, ring[st:]...), ring[:st]...)
	}
	_ = W
	return Poly{ring}
}

// Degenerate: rings of 0, 1 or 2 points, rings repeating one point, polygons without rings (C06 only).
func Degenerate(rng *fw.Rng, W int64) Poly {
	if rng.Chance(1, 12) {
		return Poly{}
	}
	nr := 1 + rng.Intn(4)
	p := make(Poly, nr)
	for i := range p {
		switch rng.Intn(6) {
		case 0:
			p[i] = []P{}
		case 1:
			p[i] = []P{{rng.Int63n(W), rng.Int63n(W)}}
		case 2:
			a := P{rng.Int63n(W), rng.Int63n(W)}
			p[i] = []P{a, a, a, a}
		case 3:
			p[i] = []P{{rng.Int63n(W), rng.Int63n(W)}, {rng.Int63n(W), rng.Int63n(W)}}
		default:
			k := 3 + rng.Intn(5)
			for j := 0; j < k; j++ {
				p[i] = append(p[i], P{rng.Int63n(W), rng.Int63n(W)})
			}
		}
	}
	return p
}

// Big: structured / large inputs - many vertices, windows of tens of pixels (W is ignored; sizes are chosen here).
// Variants: a star with 40-150 vertices, a comb with 8-30 teeth, a grown simple polygon with 40-120 vertices,
// a spiral corridor (hairpin bends: rings that grow to several times their vertex count when snapped at coarse levels).
func Big(rng *fw.Rng, W int64) Poly {
	switch rng.Intn(5) {
	case 4:
		// long thin sliver: a gently turning path with a vertex in (almost) every pixel it passes, out along one side
		// and back along the other, 1-2 q apart: snaps to a long chain that walks exactly back over itself
		n := 10 + rng.Intn(140)
		step := float64(3 + rng.Intn(6)) // q per vertex (a pixel is 4 q)
		ang := rng.Float64() * 2 * math.Pi
		turn := (rng.Float64() - 0.5) * 0.08
		off := float64(1 + rng.Intn(2))
		x, y := 0.0, 0.0
		var out, back []P
		for i := 0; i < n; i++ {
			out = append(out, P{int64(math.Round(x)), int64(math.Round(y))})
			nx, ny := -math.Sin(ang), math.Cos(ang)
			back = append(back, P{int64(math.Round(x + off*nx)), int64(math.Round(y + off*ny))})
			x, y = x+step*math.Cos(ang), y+step*math.Sin(ang)
			ang += turn
			if rng.Chance(1, 30) {
				turn = (rng.Float64() - 0.5) * 0.08
			}
		}
		r := out
		for i := len(back) - 1; i >= 0; i-- {
			r = append(r, back[i])
		}
		// shift into the positive quadrant
		minx, miny := int64(0), int64(0)
		for _, p := range r {
			minx, miny = min(minx, p[0]), min(miny, p[1])
		}
		for i := range r {
			r[i] = P{r[i][0] - minx + 4, r[i][1] - miny + 4}
		}
		return Poly{r}
	case 0:
		w := float64(120 + rng.Intn(280))
		p := Poly{star(rng, w/2, w/2, w*0.1*rng.Float64(), w*0.45, 40+rng.Intn(110))}
		if rng.Bool() {
			p = append(p, star(rng, w/2, w/2, 1, w*0.08, 3+rng.Intn(6)))
		}
		return p
	case 1:
		x, y0 := int64(rng.Intn(8)), int64(rng.Intn(8))
		base := int64(1 + rng.Intn(12))
		r := []P{{x, y0}}
		teeth := 8 + rng.Intn(23)
		var top []P
		cx := x
		for t := 0; t < teeth; t++ {
			tw := int64(1 + rng.Intn(6))
			th := int64(1 + rng.Intn(120))
			top = append(top, P{cx, y0 + base + th}, P{cx + tw, y0 + base + th})
			cx += tw
			if t < teeth-1 {
				gw := int64(1 + rng.Intn(6))
				top = append(top, P{cx, y0 + base}, P{cx + gw, y0 + base})
				cx += gw
			}
		}
		r = append(r, P{cx, y0})
		for i := len(top) - 1; i >= 0; i-- {
			r = append(r, top[i])
		}
		return Poly{r}
	case 2:
		WW := int64(80 + rng.Intn(240))
		r := []P{{rng.Int63n(WW), rng.Int63n(WW)}, {rng.Int63n(WW), rng.Int63n(WW)}, {rng.Int63n(WW), rng.Int63n(WW)}}
		if !oracle.RingSimple(r) || oracle.Area2(r).Sign() == 0 {
			return Poly{r}
		}
		target := 40 + rng.Intn(80)
		for tries := 0; tries < 1500 && len(r) < target; tries++ {
			i := rng.Intn(len(r))
			p := P{rng.Int63n(WW), rng.Int63n(WW)}
			nr := append(append(append([]P{}, r[:i+1]...), p), r[i+1:]...)
			if oracle.RingSimple(nr) {
				r = nr
			}
		}
		return Poly{r}
	default:
		// rectangular spiral corridor of width cw with gap g, n turns: long parallel strokes close together
		cw, g := int64(1+rng.Intn(4)), int64(1+rng.Intn(4))
		n := 2 + rng.Intn(5)
		step := cw + g
		size := int64(2*n+2) * step
		var outer, inner []P
		x0, y0, x1, y1 := int64(0), int64(0), size, size
		for k := 0; k < n; k++ {
			outer = append(outer, P{x0, y0}, P{x1, y0}, P{x1, y1}, P{x0 + step, y1})
			x0, y0, x1, y1 = x0+step, y0+step, x1-step, y1-step
			_ = inner
		}
		// walk the outer spine outwards-in, then come back along a parallel offset of cw
		spine := outer
		var back []P
		for i := len(spine) - 1; i >= 0; i-- {
			p := spine[i]
			// offset towards the inside of the spiral (approximate: shift by cw diagonally inwards)
			cx, cy := size/2, size/2
			dx, dy := int64(0), int64(0)
			if p[0] < cx {
				dx = cw
			} else {
				dx = -cw
			}
			if p[1] < cy {
				dy = cw
			} else {
				dy = -cw
			}
			back = append(back, P{p[0] + dx, p[1] + dy})
		}
		return Poly{append(spine, back...)}
	}
}

// Huge: a sheet with k x k small holes (k = 23..30: 529-900 holes, 1600-3600 vertices) - beyond any size threshold a
// "small inputs only" code path could hide behind (worker pools, fixed-size tables, quadratic fallbacks).
// Zipper: a long narrow inlet (two boundary lines 1 q apart, a vertex in every pixel, cut in from the right side) next to a
// chain of ponds: ONE hole whose lower boundary runs along the inlet in the same pixel row and whose upper boundary comes
// down to it at a neck every 6 pixels. At the level where a pixel is 4 q the shell passes every pixel of that row twice and the
// hole pinches at pixels the shell has already passed twice, adding no doubly-visited pixel of its own. 200-1400 pixels long:
// both rings have thousands of vertices.
func Zipper(rng *fw.Rng, W int64) Poly {
	m := int64(fw.Pick(rng, []int{30, 80, 150, 170, 200, 230})) // necks
	xs := int64(14)
	xe := xs + 24*m
	X := xe + 12
	H := int64(64)
	shell := []P{{0, 0}, {X, 0}, {X, 16}}
	for x := X - 2; x >= 10; x -= 4 {
		shell = append(shell, P{x, 16})
	}
	for x := int64(10); x <= X-2; x += 4 {
		shell = append(shell, P{x, 17})
	}
	shell = append(shell, P{X, 17}, P{X, H}, P{0, H})
	var hole []P
	for x := xs; x <= xe; x += 4 {
		hole = append(hole, P{x, 18})
	}
	top := int64(40 + 4*rng.Intn(4))
	for k := m; k >= 1; k-- {
		n1, n0 := xs+24*k, xs+24*(k-1)
		hole = append(hole, P{n1, 19}, P{n1 - 8, top}, P{n0 + 8, top})
	}
	hole = append(hole, P{xs, 19})
	_ = W
	return Poly{shell, hole}
}

func Huge(rng *fw.Rng, W int64) Poly {
	k := int64(23 + rng.Intn(14))   // 529 .. 1296 holes
	pitch := int64(5 + rng.Intn(6)) // q between hole origins
	hs := int64(1 + rng.Intn(3))    // hole size in q
	roofed := rng.Chance(1, 2)
	if roofed { // holes of 2-3 pixels that survive as holes at the level where a pixel is 4 q: more than 1024 inner rings in the result
		pitch = int64(16 + 4*rng.Intn(3))
		hs = int64(8 + rng.Intn(4))
		if rng.Chance(2, 3) {
			k = int64(33 + rng.Intn(4))
		}
	}
	size := k*pitch + 4
	p := Poly{{{0, 0}, {size, 0}, {size, size}, {0, size}}}
	if roofed {
		// a roofed sheet: the shell's LAST vertex is a pointed apex (a strict extreme that no other vertex shares an ordinate
		// with), and one more hole lies under the roof, beyond the envelope of all the other shell vertices
		ax, ay := size/2+int64(rng.Intn(5)), size+int64(32+4*rng.Intn(6))
		p = Poly{{{0, size}, {0, 0}, {size, 0}, {size, size}, {ax, ay}}}
		p = append(p, []P{{ax - 20, size + 6}, {ax + 20, size + 6}, {ax, size + 22}}) // 10 x 4 pixels: room for points far from its boundary
	}
	for i := int64(0); i < k; i++ {
		for j := int64(0); j < k; j++ {
			x, y := 3+i*pitch, 3+j*pitch
			if rng.Bool() {
				p = append(p, []P{{x, y}, {x, y + hs}, {x + hs, y}})
			} else {
				p = append(p, []P{{x, y}, {x, y + hs}, {x + hs, y + hs}, {x + hs, y}})
			}
		}
	}
	return p
}

// Kinds lists all generator names.
var Kinds = []string{"star", "comb", "sliver", "angle", "rectholes", "spiky", "grow", "junk", "motif", "border", "moat"}

// ByName runs a generator.
func ByName(name string, rng *fw.Rng, W int64) Poly {
	switch name {
	case "star":
		return Star(rng, W)
	case "comb":
		return Comb(rng, W)
	case "sliver":
		return Sliver(rng, W)
	case "angle":
		return Angle(rng, W)
	case "rectholes":
		return RectHoles(rng, W)
	case "spiky":
		return Spiky(rng, W)
	case "grow":
		return Grow(rng, W)
	case "junk":
		return Junk(rng, W)
	case "motif":
		return Motif(rng, W)
	case "border":
		return Border(rng, W)
	case "moat":
		return Moat(rng, W)
	case "nest":
		return Nest(rng, W)
	case "lobes":
		return Lobes(rng, W)
	case "saw":
		return Saw(rng, W)
	case "degenerate":
		return Degenerate(rng, W)
	case "big":
		return Big(rng, W)
	case "huge":
		return Huge(rng, W)
	case "zipper":
		return Zipper(rng, W)
	}
	panic("unknown generator " + name)
}

// Bounds of a polygon in lattice units.
func (p Poly) Bounds() (minx, miny, maxx, maxy int64) {
	minx, miny, maxx, maxy = math.MaxInt64, math.MaxInt64, math.MinInt64, math.MinInt64
	n := 0
	for _, r := range p {
		n += len(r)
	}
	if n == 0 {
		return 0, 0, 0, 0
	}
	for _, r := range p {
		for _, v := range r {
			minx, miny, maxx, maxy = min(minx, v[0]), min(miny, v[1]), max(maxx, v[0]), max(maxy, v[1])
		}
	}
	return
}
