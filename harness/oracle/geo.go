// Package oracle: exact integer/rational geometry used by the monitors (independent of texel).
package oracle

import (
	"math/big"
	"math/bits"
	"sort"
)

type P [2]int64

// --- 128-bit safe orientation using big.Int only when needed ---
func cross(ax, ay, bx, by int64) int {
	// sign of ax*by - ay*bx, exact (128-bit products)
	return cmpMul(ax, by, ay, bx)
}

// mul128 returns the signed 128-bit product a*b as (hi, lo).
func mul128(a, b int64) (int64, uint64) {
	hi, lo := bits.Mul64(uint64(a), uint64(b))
	// correct for signed operands
	if a < 0 {
		hi -= uint64(b)
	}
	if b < 0 {
		hi -= uint64(a)
	}
	return int64(hi), lo
}

// cmpMul compares a*b with c*d exactly: -1, 0, +1.
func cmpMul(a, b, c, d int64) int {
	h1, l1 := mul128(a, b)
	h2, l2 := mul128(c, d)
	switch {
	case h1 < h2:
		return -1
	case h1 > h2:
		return 1
	case l1 < l2:
		return -1
	case l1 > l2:
		return 1
	}
	return 0
}

// Orient: sign of (b-a) x (c-a)
func Orient(a, b, c P) int { return cross(b[0]-a[0], b[1]-a[1], c[0]-a[0], c[1]-a[1]) }

func between(a, b, c int64) bool { // c within [min(a,b), max(a,b)]
	if a > b {
		a, b = b, a
	}
	return a <= c && c <= b
}
func OnSeg(a, b, p P) bool {
	return Orient(a, b, p) == 0 && between(a[0], b[0], p[0]) && between(a[1], b[1], p[1])
}

// ProperCross: segments ab and cd cross at a single point interior to both.
func ProperCross(a, b, c, d P) bool {
	o1, o2 := Orient(a, b, c), Orient(a, b, d)
	o3, o4 := Orient(c, d, a), Orient(c, d, b)
	return o1*o2 < 0 && o3*o4 < 0
}

// SegsIntersect: closed segments share at least one point.
func SegsIntersect(a, b, c, d P) bool {
	o1, o2 := Orient(a, b, c), Orient(a, b, d)
	o3, o4 := Orient(c, d, a), Orient(c, d, b)
	if o1*o2 < 0 && o3*o4 < 0 {
		return true
	}
	return (o1 == 0 && OnSeg(a, b, c)) || (o2 == 0 && OnSeg(a, b, d)) || (o3 == 0 && OnSeg(c, d, a)) || (o4 == 0 && OnSeg(c, d, b))
}

// rational t = n/d with d>0
type rat struct{ n, d int64 }

func newRat(n, d int64) rat {
	if d < 0 {
		n, d = -n, -d
	}
	return rat{n, d}
}
func (a rat) cmp(b rat) int { return cmpMul(a.n, b.d, b.n, a.d) }

// Float returns an approximation (for reports only).
func (a rat) Float() float64 { return float64(a.n) / float64(a.d) }

// Interval of t in [0,1] with open/closed ends.
type Ival struct {
	Lo, Hi         rat
	LoOpen, HiOpen bool
	Empty          bool
}

func (iv *Ival) clipLo(v rat, open bool) {
	c := v.cmp(iv.Lo)
	if c > 0 || (c == 0 && open && !iv.LoOpen) {
		iv.Lo, iv.LoOpen = v, open
	}
}
func (iv *Ival) clipHi(v rat, open bool) {
	c := v.cmp(iv.Hi)
	if c < 0 || (c == 0 && open && !iv.HiOpen) {
		iv.Hi, iv.HiOpen = v, open
	}
}
func (iv *Ival) norm() {
	c := iv.Lo.cmp(iv.Hi)
	if c > 0 || (c == 0 && (iv.LoOpen || iv.HiOpen)) {
		iv.Empty = true
	}
}

// axis constraint lo <= a + t*d < hi
func (iv *Ival) axis(a, d, lo, hi int64) {
	if iv.Empty {
		return
	}
	if d == 0 {
		if !(lo <= a && a < hi) {
			iv.Empty = true
		}
		return
	}
	tlo := newRat(lo-a, d) // t at which coordinate == lo
	thi := newRat(hi-a, d)
	if d > 0 {
		iv.clipLo(tlo, false)
		iv.clipHi(thi, true)
	} else {
		iv.clipLo(thi, true)
		iv.clipHi(tlo, false)
	}
	iv.norm()
}

// SegPixel: t-interval of closed segment a->b inside half-open box [x0,x1)x[y0,y1)
func SegPixel(a, b P, x0, y0, x1, y1 int64) Ival {
	iv := Ival{Lo: newRat(0, 1), Hi: newRat(1, 1)}
	iv.axis(a[0], b[0]-a[0], x0, x1)
	iv.axis(a[1], b[1]-a[1], y0, y1)
	return iv
}

// Grid describes pixel grid at one level in integer units.
type Grid struct {
	OX, OY, Pix int64
	N           int64 // pixels per axis
}

func fdiv(a, b int64) int64 { // floor division, b>0
	q := a / b
	if a%b != 0 && (a < 0) {
		q--
	}
	return q
}
func (g Grid) PixOf(p P) (int64, int64) { return fdiv(p[0]-g.OX, g.Pix), fdiv(p[1]-g.OY, g.Pix) }
func (g Grid) Centre(ix, iy int64) P {
	return P{g.OX + ix*g.Pix + g.Pix/2, g.OY + iy*g.Pix + g.Pix/2}
}

type PixKey [2]int64

// Route: ordered hot pixels met by closed segment a->b.
func (g Grid) Route(a, b P, hot map[PixKey]bool) []PixKey {
	type hit struct {
		k  PixKey
		iv Ival
	}
	var hits []hit
	for k := range hot {
		x0 := g.OX + k[0]*g.Pix
		y0 := g.OY + k[1]*g.Pix
		iv := SegPixel(a, b, x0, y0, x0+g.Pix, y0+g.Pix)
		if !iv.Empty {
			hits = append(hits, hit{k, iv})
		}
	}
	sort.Slice(hits, func(i, j int) bool {
		c := hits[i].iv.Lo.cmp(hits[j].iv.Lo)
		if c != 0 {
			return c < 0
		}
		if hits[i].iv.LoOpen != hits[j].iv.LoOpen {
			return !hits[i].iv.LoOpen
		}
		// a==b degenerate: deterministic
		if hits[i].k[0] != hits[j].k[0] {
			return hits[i].k[0] < hits[j].k[0]
		}
		return hits[i].k[1] < hits[j].k[1]
	})
	out := make([]PixKey, len(hits))
	for i := range hits {
		out[i] = hits[i].k
	}
	return out
}

// Area2 signed doubled area of ring of pixel keys / points
func Area2(r []P) *big.Int {
	s := new(big.Int)
	n := len(r)
	for i := 0; i < n; i++ {
		a, b := r[i], r[(i+1)%n]
		t := new(big.Int).Mul(big.NewInt(a[0]), big.NewInt(b[1]))
		u := new(big.Int).Mul(big.NewInt(a[1]), big.NewInt(b[0]))
		s.Add(s, t.Sub(t, u))
	}
	return s
}

// PointInRing: 1 inside, 0 on boundary, -1 outside (even-odd), exact.
func PointInRing(r []P, p P) int {
	n := len(r)
	in := false
	for i := 0; i < n; i++ {
		a, b := r[i], r[(i+1)%n]
		if OnSeg(a, b, p) {
			return 0
		}
		if (a[1] > p[1]) != (b[1] > p[1]) {
			// crossing of horizontal ray to +x
			o := Orient(a, b, p)
			if b[1] > a[1] {
				if o > 0 {
					in = !in
				}
			} else if o < 0 {
				in = !in
			}
		}
	}
	if in {
		return 1
	}
	return -1
}

// RingSimple: no two non-adjacent edges intersect, adjacent share only the endpoint, no zero-length edges.
func RingSimple(r []P) bool {
	n := len(r)
	if n < 3 {
		return false
	}
	for i := 0; i < n; i++ {
		if r[i] == r[(i+1)%n] {
			return false
		}
	}
	for i := 0; i < n; i++ {
		a, b := r[i], r[(i+1)%n]
		for j := i + 1; j < n; j++ {
			c, d := r[j], r[(j+1)%n]
			adj := j == i+1 || (i == 0 && j == n-1)
			if !adj {
				if SegsIntersect(a, b, c, d) {
					return false
				}
			} else {
				// adjacent: must not overlap collinearly (spike)
				var sh, o1, o2 P
				if j == i+1 {
					sh, o1, o2 = b, a, d
				} else {
					sh, o1, o2 = a, b, c
				}
				if Orient(sh, o1, o2) == 0 {
					// collinear: spike if o1 and o2 on same side of sh
					dx1, dy1 := o1[0]-sh[0], o1[1]-sh[1]
					dx2, dy2 := o2[0]-sh[0], o2[1]-sh[1]
					dot := new(big.Int).Add(new(big.Int).Mul(big.NewInt(dx1), big.NewInt(dx2)), new(big.Int).Mul(big.NewInt(dy1), big.NewInt(dy2)))
					if dot.Sign() > 0 {
						return false
					}
				}
			}
		}
	}
	return true
}

// RingsDisjoint: closed boundaries share no point.
func RingsDisjoint(r1, r2 []P) bool {
	for i := range r1 {
		a, b := r1[i], r1[(i+1)%len(r1)]
		for j := range r2 {
			if SegsIntersect(a, b, r2[j], r2[(j+1)%len(r2)]) {
				return false
			}
		}
	}
	return true
}

// ValidPolygon: rings simple, holes strictly inside shell, holes mutually disjoint and not nested.
func ValidPolygon(rings [][]P) bool {
	for _, r := range rings {
		if !RingSimple(r) || Area2(r).Sign() == 0 {
			return false
		}
	}
	for i := 1; i < len(rings); i++ {
		if !RingsDisjoint(rings[0], rings[i]) || PointInRing(rings[0], rings[i][0]) != 1 {
			return false
		}
		for j := i + 1; j < len(rings); j++ {
			if !RingsDisjoint(rings[i], rings[j]) || PointInRing(rings[i], rings[j][0]) != -1 || PointInRing(rings[j], rings[i][0]) != -1 {
				return false
			}
		}
	}
	return true
}
