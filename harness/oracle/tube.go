package oracle

import (
	"math/big"
	"sort"
)

func abs64(a int64) int64 {
	if a < 0 {
		return -a
	}
	return a
}

type ratIv struct{ lo, hi *big.Rat }

// clip t-interval [lo,hi] by constraint  A + B*t <= C  (all big.Int)
func clipLE(iv *ratIv, A, B, C *big.Int) bool {
	// B*t <= C-A
	r := new(big.Int).Sub(C, A)
	switch B.Sign() {
	case 0:
		return r.Sign() >= 0
	case 1:
		v := new(big.Rat).SetFrac(r, B)
		if v.Cmp(iv.hi) < 0 {
			iv.hi = v
		}
	default:
		v := new(big.Rat).SetFrac(r, B)
		if v.Cmp(iv.lo) > 0 {
			iv.lo = v
		}
	}
	return iv.lo.Cmp(iv.hi) <= 0
}

// EdgeWithinTube: every point of segment s0->s1 is within Chebyshev distance h of the union of the given edges (closed).
func EdgeWithinTube(s0, s1 P, edges [][2]P, h int64) bool {
	bi := big.NewInt
	var ivs []ratIv
	sdx, sdy := s1[0]-s0[0], s1[1]-s0[1]
	for _, e := range edges {
		a, b := e[0], e[1]
		iv := ratIv{new(big.Rat), new(big.Rat).SetInt64(1)}
		minx, maxx := a[0], b[0]
		if minx > maxx {
			minx, maxx = maxx, minx
		}
		miny, maxy := a[1], b[1]
		if miny > maxy {
			miny, maxy = maxy, miny
		}
		ok := clipLE(&iv, bi(s0[0]), bi(sdx), bi(maxx+h)) && // x <= maxx+h
			clipLE(&iv, bi(-s0[0]), bi(-sdx), bi(-(minx-h))) && // -x <= -(minx-h)
			clipLE(&iv, bi(s0[1]), bi(sdy), bi(maxy+h)) &&
			clipLE(&iv, bi(-s0[1]), bi(-sdy), bi(-(miny-h)))
		if !ok {
			continue
		}
		dx, dy := b[0]-a[0], b[1]-a[1]
		if dx != 0 || dy != 0 {
			// n = (-dy, dx); f(t) = n.(s(t)-a) = A + B t ; |f| <= h(|dx|+|dy|)
			A := new(big.Int).Add(new(big.Int).Mul(bi(-dy), bi(s0[0]-a[0])), new(big.Int).Mul(bi(dx), bi(s0[1]-a[1])))
			B := new(big.Int).Add(new(big.Int).Mul(bi(-dy), bi(sdx)), new(big.Int).Mul(bi(dx), bi(sdy)))
			C := new(big.Int).Mul(bi(h), bi(abs64(dx)+abs64(dy)))
			ok = clipLE(&iv, A, B, C) && clipLE(&iv, new(big.Int).Neg(A), new(big.Int).Neg(B), C)
			if !ok {
				continue
			}
		}
		ivs = append(ivs, iv)
	}
	sort.Slice(ivs, func(i, j int) bool { return ivs[i].lo.Cmp(ivs[j].lo) < 0 })
	reach := new(big.Rat) // covered [0, reach]
	started := false
	one := new(big.Rat).SetInt64(1)
	for _, iv := range ivs {
		if !started {
			if iv.lo.Sign() > 0 {
				return false
			}
			started = true
			reach = iv.hi
			continue
		}
		if iv.lo.Cmp(reach) > 0 {
			return false
		}
		if iv.hi.Cmp(reach) > 0 {
			reach = iv.hi
		}
	}
	return started && reach.Cmp(one) >= 0
}

// FarFromEdges: sufficient test that Chebyshev distance from p to every edge is > d.
func FarFromEdges(p P, edges [][2]P, d int64) bool {
	for _, e := range edges {
		iv := SegPixel(e[0], e[1], p[0]-d-1, p[1]-d-1, p[0]+d+2, p[1]+d+2)
		if !iv.Empty {
			return false
		}
	}
	return true
}
