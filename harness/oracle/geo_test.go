package oracle

import (
	"math/big"
	"math/rand"
	"testing"
)

func TestCmpMul(t *testing.T) {
	rng := rand.New(rand.NewSource(1))
	for i := 0; i < 200000; i++ {
		sh := uint(rng.Intn(62))
		a, b, c, d := rng.Int63()>>sh-rng.Int63()>>sh, rng.Int63()>>sh-rng.Int63()>>sh, rng.Int63()>>sh-rng.Int63()>>sh, rng.Int63()>>sh-rng.Int63()>>sh
		if i%7 == 0 {
			c, d = b, a
		}
		want := new(big.Int).Mul(big.NewInt(a), big.NewInt(b)).Cmp(new(big.Int).Mul(big.NewInt(c), big.NewInt(d)))
		if got := cmpMul(a, b, c, d); got != want {
			t.Fatalf("cmpMul(%d,%d,%d,%d)=%d want %d", a, b, c, d, got, want)
		}
	}
}

// SegPixel against brute-force rational sampling on a small lattice.
func TestSegPixelBrute(t *testing.T) {
	rng := rand.New(rand.NewSource(2))
	for it := 0; it < 20000; it++ {
		a := P{int64(rng.Intn(13)), int64(rng.Intn(13))}
		b := P{int64(rng.Intn(13)), int64(rng.Intn(13))}
		x0, y0 := int64(rng.Intn(3))*4, int64(rng.Intn(3))*4
		iv := SegPixel(a, b, x0, y0, x0+4, y0+4)
		// brute force: sample t = k/N for N = product of all possible denominators (<=12) -> lcm(1..12)=27720
		const N = 27720
		dx, dy := b[0]-a[0], b[1]-a[1]
		hit := false
		for k := int64(0); k <= N; k++ {
			// point*N
			px, py := a[0]*N+k*dx, a[1]*N+k*dy
			if px >= x0*N && px < (x0+4)*N && py >= y0*N && py < (y0+4)*N {
				hit = true
				break
			}
		}
		if hit == iv.Empty {
			t.Fatalf("SegPixel(%v,%v,[%d,%d)+4) empty=%v brute hit=%v", a, b, x0, y0, iv.Empty, hit)
		}
	}
}

func TestEdgeWithinTubeBrute(t *testing.T) {
	rng := rand.New(rand.NewSource(3))
	for it := 0; it < 600; it++ {
		var edges [][2]P
		for k := 1 + rng.Intn(3); k > 0; k-- {
			edges = append(edges, [2]P{{int64(rng.Intn(40)), int64(rng.Intn(40))}, {int64(rng.Intn(40)), int64(rng.Intn(40))}})
		}
		s0, s1 := P{int64(rng.Intn(40)), int64(rng.Intn(40))}, P{int64(rng.Intn(40)), int64(rng.Intn(40))}
		h := int64(1 + rng.Intn(6))
		got := EdgeWithinTube(s0, s1, edges, h)
		// brute: sample points on s at 1/64 steps, test Chebyshev distance to each edge by dense sampling of edge (1/64 steps) with slack
		const N = 200
		allIn, allInLoose := true, true
		for k := 0; k <= N; k++ {
			px := float64(s0[0]) + float64(k)/N*float64(s1[0]-s0[0])
			py := float64(s0[1]) + float64(k)/N*float64(s1[1]-s0[1])
			best := 1e18
			for _, e := range edges {
				for j := 0; j <= 4*N; j++ {
					ex := float64(e[0][0]) + float64(j)/(4*N)*float64(e[1][0]-e[0][0])
					ey := float64(e[0][1]) + float64(j)/(4*N)*float64(e[1][1]-e[0][1])
					d := max(abs(px-ex), abs(py-ey))
					if d < best {
						best = d
					}
				}
			}
			if best > float64(h)+0.2 {
				allInLoose = false
			}
			if best > float64(h)-0.25 {
				allIn = false
			}
		}
		// got must be true if clearly inside (allIn), false if clearly outside (!allInLoose)
		if allIn && !got {
			t.Fatalf("tube: clearly inside but got false: s=%v-%v edges=%v h=%d", s0, s1, edges, h)
		}
		if !allInLoose && got {
			t.Fatalf("tube: clearly outside but got true: s=%v-%v edges=%v h=%d", s0, s1, edges, h)
		}
	}
}

func abs(x float64) float64 {
	if x < 0 {
		return -x
	}
	return x
}
