package oracle

// RouteFacts is what the oracle derives for one polygon at one pixel grid.
type RouteFacts struct {
	Hot     map[PixKey]bool
	Chains  [][]PixKey // routed chain per ring (consecutive and closing duplicates dropped)
	Mult    map[PixKey]int
	MaxMult int
	Routed  map[[2]PixKey]bool // undirected set of consecutive chain pairs
	// tie classes seen while routing
	ThroughCorner  bool // an edge passes exactly through a pixel corner of the grid (not at its endpoints)
	VertexOnBorder bool
}

// Normalise returns copies of the rings with the shell counter-clockwise and holes clockwise (exact signed area).
func Normalise(rings [][]P) [][]P {
	norm := make([][]P, len(rings))
	for i, r := range rings {
		s := Area2(r).Sign()
		rr := append([]P{}, r...)
		if (i == 0 && s < 0) || (i > 0 && s > 0) {
			Reverse(rr)
		}
		norm[i] = rr
	}
	return norm
}

func Reverse[T any](s []T) {
	for a, b := 0, len(s)-1; a < b; a, b = a+1, b-1 {
		s[a], s[b] = s[b], s[a]
	}
}

// HotSet returns the pixels that contain at least one vertex.
func (g Grid) HotSet(rings [][]P) map[PixKey]bool {
	hot := map[PixKey]bool{}
	for _, r := range rings {
		for _, p := range r {
			kx, ky := g.PixOf(p)
			hot[PixKey{kx, ky}] = true
		}
	}
	return hot
}

// RouteRings routes every ring (given in processing direction) through the hot pixels.
func (g Grid) RouteRings(norm [][]P) RouteFacts {
	f := RouteFacts{Hot: g.HotSet(norm), Mult: map[PixKey]int{}, Routed: map[[2]PixKey]bool{}}
	f.Chains = make([][]PixKey, len(norm))
	for i, r := range norm {
		var ch []PixKey
		for j := range r {
			a, b := r[j], r[(j+1)%len(r)]
			if (a[0]-g.OX)%g.Pix == 0 || (a[1]-g.OY)%g.Pix == 0 {
				f.VertexOnBorder = true
			}
			if !f.ThroughCorner && g.throughCorner(a, b) {
				f.ThroughCorner = true
			}
			for _, k := range g.Route(a, b, f.Hot) {
				if len(ch) == 0 || ch[len(ch)-1] != k {
					ch = append(ch, k)
				}
			}
		}
		if len(ch) > 1 && ch[0] == ch[len(ch)-1] {
			ch = ch[:len(ch)-1]
		}
		f.Chains[i] = ch
		for j, k := range ch {
			f.Mult[k]++
			k2 := ch[(j+1)%len(ch)]
			f.Routed[[2]PixKey{k, k2}] = true
			f.Routed[[2]PixKey{k2, k}] = true
		}
	}
	for _, m := range f.Mult {
		if m > f.MaxMult {
			f.MaxMult = m
		}
	}
	return f
}

// throughCorner: does the open segment a-b pass through a grid corner (x and y both multiples of Pix)?
func (g Grid) throughCorner(a, b P) bool {
	dx, dy := b[0]-a[0], b[1]-a[1]
	if dx == 0 || dy == 0 {
		return false
	}
	x0, x1 := a[0], b[0]
	if x0 > x1 {
		x0, x1 = x1, x0
	}
	// vertical grid lines strictly between
	first := fdiv(x0-g.OX, g.Pix) + 1
	n := 0
	for k := first; g.OX+k*g.Pix < x1 && n < 64; k, n = k+1, n+1 {
		gx := g.OX + k*g.Pix
		// y at gx: a.y + (gx-a.x)*dy/dx must be integer and multiple of Pix offset
		num := (gx - a[0])
		// exact: need (num*dy) % dx == 0
		h, l := mul128(num, dy)
		_ = h
		if h != 0 && h != -1 {
			continue // too large for the cheap path; not a case we generate
		}
		prod := int64(l)
		if prod%dx != 0 {
			continue
		}
		y := a[1] + prod/dx
		if (y-g.OY)%g.Pix == 0 {
			return true
		}
	}
	return false
}

// StraightRun: walking some chain from an occurrence of a, in either direction, stays on segment a-b,
// strictly advancing, until b is reached.
func StraightRun(chains [][]PixKey, a, b PixKey) bool {
	pa, pb := P{a[0], a[1]}, P{b[0], b[1]}
	for _, ch := range chains {
		n := len(ch)
		for i := range ch {
			if ch[i] != a {
				continue
			}
			for _, dir := range []int{1, -1} {
				prev := pa
				for s := 1; s < n; s++ {
					k := ch[((i+dir*s)%n+n)%n]
					p := P{k[0], k[1]}
					if Orient(pa, pb, p) != 0 || !OnSeg(pa, pb, p) || !OnSeg(prev, pb, p) || p == prev {
						break
					}
					if k == b {
						return true
					}
					prev = p
				}
			}
		}
	}
	return false
}

// KeysToP converts pixel keys to points (pixel index space).
func KeysToP(r []PixKey) []P {
	o := make([]P, len(r))
	for i := range r {
		o[i] = P{r[i][0], r[i][1]}
	}
	return o
}

// CyclicEq: equal up to rotation of the start vertex.
func CyclicEq(a, b []PixKey) bool {
	if len(a) != len(b) {
		return false
	}
	n := len(a)
	if n == 0 {
		return true
	}
	for s := 0; s < n; s++ {
		ok := true
		for i := 0; i < n; i++ {
			if a[i] != b[(s+i)%n] {
				ok = false
				break
			}
		}
		if ok {
			return true
		}
	}
	return false
}
