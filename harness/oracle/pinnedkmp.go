package oracle

import (
	"fmt"
	"slices"
	"sort"
)

// PinnedKmpDeduplicate is a transcription of snap.kmpDeduplicate (and kmpSearchAll / kmpSearch / kmpTable) as pinned at
// /repo commit 2260c2f, without its dependencies (the sorted map is a plain map plus a sort by start index; a key that is
// already present is not overwritten, as sortedmap.Insert does). It is NOT an oracle of what the function should do: it
// reproduces what the pinned code does, defect F5 included (a removed index range that is not a closed walk joins two
// vertices that were never consecutive). Its only use is to tell the known finding KF-F5 - the pinned behaviour, observed at
// that call site through hook H4 - from any other way of inventing an edge: a violation is attributed to KF-F5 only if
// every kmpDeduplicate call of the run returned exactly what this transcription returns for the same input.
// PinnedKmpBranches counts, per branch of the case analysis, how often the transcription took it (coverage evidence):
// 0 zigzag, 1 multiple backtrace, 2 single backtrace, 3 default/fewer, 4 default/more-than-one-more, 5 default/neither.
var PinnedKmpBranches [6]int64

func PinnedKmpDeduplicate(ring [][2]float64) [][2]float64 {
	ringLen := len(ring)
	type seq struct {
		key    string
		fromTo [2]int
	}
	seqs := map[string][2]int{}
	insert := func(segment [][2]float64, ft [2]int) {
		k := fmt.Sprint(segment)
		if _, ok := seqs[k]; !ok {
			seqs[k] = ft
		}
	}
	visitedPoints := [][2]float64{}
	for i := 0; i < ringLen; {
		vertex := ring[i]
		if len(visitedPoints) <= 1 || visitedPoints[len(visitedPoints)-2] != vertex {
			visitedPoints = append(visitedPoints, vertex)
			i++
			continue
		}
		reverseSegment := [][2]float64{visitedPoints[len(visitedPoints)-1], visitedPoints[len(visitedPoints)-2]}
		for j := 3; j <= len(visitedPoints); j++ {
			nextI := i + (j - 2)
			if nextI <= ringLen-1 && visitedPoints[len(visitedPoints)-j] == ring[nextI] {
				reverseSegment = append(reverseSegment, visitedPoints[len(visitedPoints)-j])
			} else {
				break
			}
		}
		segment := make([][2]float64, len(reverseSegment))
		copy(segment, reverseSegment)
		slices.Reverse(segment)
		start := i - len(segment)
		end := start + (3 * len(segment))
		k := 0
		corpus := ring[start:min(end, ringLen)]
		for {
			stop := false
			for _, vertex := range corpus[k:] {
				if !slices.Contains(segment, vertex) {
					stop = true
					break
				}
			}
			if end > ringLen {
				stop = true
			}
			if stop {
				break
			}
			k = len(corpus)
			corpus = append(corpus, ring[end:min(end+(2*len(segment)), ringLen)]...)
			end += 2 * len(segment)
		}
		matches := pinnedKmpSearchAll(corpus, segment)
		reverseMatches := pinnedKmpSearchAll(corpus, reverseSegment)
		switch {
		case len(matches) > 1 && (len(matches)-len(reverseMatches)) == 1:
			PinnedKmpBranches[0]++
			sequenceStart := start + len(segment)
			sequenceEnd := start + matches[len(matches)-1] + len(segment)
			insert(segment, [2]int{sequenceStart, sequenceEnd})
			i = sequenceEnd
			visitedPoints = [][2]float64{}
		case len(matches) > 1 && len(matches) == len(reverseMatches):
			PinnedKmpBranches[1]++
			sequenceStart := start + (2 * len(segment)) - 1
			sequenceEnd := start + matches[len(matches)-1] + len(segment)
			insert(segment, [2]int{sequenceStart, sequenceEnd})
			i = sequenceEnd
			visitedPoints = [][2]float64{}
		case len(matches) == 1 && len(reverseMatches) == 1:
			PinnedKmpBranches[2]++
			i = start + (2 * len(segment)) - 1
			visitedPoints = [][2]float64{}
		default:
			sequenceStart := start
			var sequenceEnd int
			var endPointIdx int
			if len(reverseMatches) > len(matches) {
				PinnedKmpBranches[3]++
				sequenceEnd = start + 2*(len(segment)-1)*len(matches)
				endPointIdx = start + reverseMatches[len(reverseMatches)-1] + len(segment)
			} else if len(matches) > 1 && (len(matches)-len(reverseMatches)) > 1 {
				PinnedKmpBranches[4]++
				sequenceEnd = start + 2*(len(segment)-1)*len(reverseMatches)
				endPointIdx = start + matches[len(matches)-1] + len(segment)
			}
			if !(len(reverseMatches) > len(matches)) && !(len(matches) > 1 && (len(matches)-len(reverseMatches)) > 1) {
				PinnedKmpBranches[5]++
			}
			insert(segment, [2]int{sequenceStart, sequenceEnd})
			i = endPointIdx - 1
			visitedPoints = [][2]float64{}
		}
	}
	var order []seq
	for k, ft := range seqs {
		order = append(order, seq{k, ft})
	}
	sort.SliceStable(order, func(a, b int) bool { return order[a].fromTo[0] < order[b].fromTo[0] })
	var newS [][2]float64
	keepFrom := 0
	for _, s := range order {
		newS = append(newS, ring[keepFrom:s.fromTo[0]]...)
		keepFrom = s.fromTo[1]
	}
	return append(newS, ring[keepFrom:]...)
}

func pinnedKmpSearchAll(corpus, find [][2]float64) []int {
	matches := []int{}
	offset := 0
	for {
		match := pinnedKmpSearch(corpus, find)
		if match == len(corpus) {
			break
		}
		matches = append(matches, match+offset)
		offset += match + len(find)
		corpus = corpus[match+len(find):]
		if len(corpus) < len(find) {
			break
		}
	}
	return matches
}

func pinnedKmpSearch(corpus, find [][2]float64) int {
	m, i := 0, 0
	table := make([]int, max(len(corpus), 2))
	pinnedKmpTable(find, table)
	for m+i < len(corpus) {
		if find[i] == corpus[m+i] {
			if i == len(find)-1 {
				return m
			}
			i++
		} else {
			if table[i] > -1 {
				i = table[i]
				m = m + i - table[i]
			} else {
				i = 0
				m++
			}
		}
	}
	return len(corpus)
}

func pinnedKmpTable(find [][2]float64, table []int) {
	pos, cnd := 2, 0
	table[0], table[1] = -1, 0
	for pos < len(find) {
		switch {
		case find[pos-1] == find[cnd]:
			cnd++
			table[pos] = cnd
			pos++
		case cnd > 0:
			cnd = table[cnd]
		default:
			table[pos] = 0
			pos++
		}
	}
}
