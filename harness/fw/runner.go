package fw

import (
	"encoding/json"
	"flag"
	"fmt"
	"io"
	"log"
	"os"
	"os/exec"
	"path/filepath"
	"runtime"
	"sort"
	"strconv"
	"strings"
	"time"
)

// Ctx is handed to a property's Run / Replay function.
type Ctx struct {
	Rec  *Recorder
	Rng  *Rng
	Tier string
	Seed int64
	Idx  int64
	Root string // /verif
	Tmp  string // scratch directory of this run (removed afterwards)
}

// ParentCtx is handed to parent-side extra steps.
type ParentCtx struct {
	Tier   string
	Seed   int64
	Root   string
	Tmp    string
	Merged *Result
	Seen   map[uint64]struct{}
	Self   string // path of this binary
	// Inconclusive reasons added by extra steps
	Inconclusive []string
	Extra        map[string]any // goes into coverage
}

// Prop describes one property's check.
type Prop struct {
	ID          string
	Cases       func(tier string) int64
	Run         func(c *Ctx)
	Replay      func(c *Ctx, raw json.RawMessage)
	Rule        string
	Required    func(tier string) []string
	MinNonTriv  int64
	Assumptions []string
	Exhaustive  map[string]string // hist key -> description of the finite sub-space enumerated completely
	Extra       func(p *ParentCtx)
	Workers     int
	FlushEvery  int64
	Watchdog    func(tier string) int // seconds per worker
	Technique   string
	Env         []string // extra environment for workers
	// WorkerBin returns the binary to run workers with ("" = this binary), e.g. a -race build
	WorkerBin func(tier string) string
	// FatalIsViolation: death of a worker process while executing a case refutes the property (C06, C11)
	FatalIsViolation bool
}

var registry = map[string]*Prop{}

func Register(p *Prop) { registry[p.ID] = p }

func root() string {
	if r := os.Getenv("VERIF_ROOT"); r != "" {
		return r
	}
	return "/verif"
}

func seedEnv() int64 {
	if s := os.Getenv("VERIF_SEED"); s != "" {
		if v, err := strconv.ParseInt(s, 10, 64); err == nil {
			return v
		}
	}
	return 1
}

// Main dispatches: run <ID> <tier> | worker ... | replay ...
func Main() {
	if len(os.Args) < 2 {
		fmt.Fprintln(os.Stderr, "usage: run <ID> quick|thorough | replay <ID> <file> | worker ...")
		os.Exit(2)
	}
	switch os.Args[1] {
	case "run":
		os.Exit(runParent(os.Args[2], os.Args[3]))
	case "replay":
		os.Exit(runReplayCmd(os.Args[2], os.Args[3]))
	case "worker":
		runWorker(os.Args[2:])
	case "replay-worker":
		runReplayWorker(os.Args[2:])
	case "list":
		ids := []string{}
		for id := range registry {
			ids = append(ids, id)
		}
		sort.Strings(ids)
		fmt.Println(strings.Join(ids, " "))
	default:
		fmt.Fprintln(os.Stderr, "unknown subcommand", os.Args[1])
		os.Exit(2)
	}
}

func runWorker(args []string) {
	fs := flag.NewFlagSet("worker", flag.ExitOnError)
	prop := fs.String("prop", "", "")
	tier := fs.String("tier", "quick", "")
	seed := fs.Int64("seed", 1, "")
	w := fs.Int64("w", 0, "")
	W := fs.Int64("W", 1, "")
	start := fs.Int64("start", 0, "")
	skip := fs.String("skip", "", "comma separated case indices to skip (cases a previous incarnation of this worker died on)")
	dir := fs.String("dir", "", "")
	_ = fs.Parse(args)
	p := registry[*prop]
	if p == nil {
		fmt.Fprintln(os.Stderr, "unknown property", *prop)
		os.Exit(2)
	}
	log.SetOutput(io.Discard)
	n := p.Cases(*tier)
	cur := filepath.Join(*dir, fmt.Sprintf("current_%d.txt", *w))
	out := filepath.Join(*dir, fmt.Sprintf("result_%d_%d.json", *w, *start))
	rec := NewRecorder(p.ID, cur)
	flushEvery := p.FlushEvery
	if flushEvery == 0 {
		flushEvery = 5000
	}
	tmp := filepath.Join(*dir, fmt.Sprintf("tmp_%d", *w))
	_ = os.MkdirAll(tmp, 0o755)
	skipSet := map[int64]bool{}
	for _, t := range strings.Split(*skip, ",") {
		if v, err := strconv.ParseInt(t, 10, 64); err == nil {
			skipSet[v] = true
		}
	}
	sinceFlush := int64(0)
	for idx := *start; idx < n; idx++ {
		if idx%*W != *w || skipSet[idx] {
			continue
		}
		rec.CurIdx = idx
		c := &Ctx{Rec: rec, Rng: CaseRng(*seed, p.ID, "", idx), Tier: *tier, Seed: *seed, Idx: idx, Root: root(), Tmp: tmp}
		p.Run(c)
		sinceFlush++
		if sinceFlush >= flushEvery {
			sinceFlush = 0
			if err := rec.Flush(out, *start, idx+1, false); err != nil {
				fmt.Fprintln(os.Stderr, "flush:", err)
				os.Exit(4)
			}
		}
	}
	if err := rec.Flush(out, *start, n, true); err != nil {
		fmt.Fprintln(os.Stderr, "flush:", err)
		os.Exit(4)
	}
}

func runReplayWorker(args []string) {
	fs := flag.NewFlagSet("replay-worker", flag.ExitOnError)
	prop := fs.String("prop", "", "")
	file := fs.String("file", "", "")
	outp := fs.String("out", "", "")
	tmp := fs.String("tmp", "", "")
	_ = fs.Parse(args)
	p := registry[*prop]
	if p == nil {
		os.Exit(2)
	}
	log.SetOutput(io.Discard)
	b, err := os.ReadFile(*file)
	if err != nil {
		fmt.Fprintln(os.Stderr, err)
		os.Exit(2)
	}
	var v Violation
	if err := json.Unmarshal(b, &v); err != nil {
		fmt.Fprintln(os.Stderr, "bad replay file:", err)
		os.Exit(2)
	}
	rec := NewRecorder(p.ID, *outp+".current")
	rec.CurIdx = v.CaseIdx
	c := &Ctx{Rec: rec, Rng: NewRng(1), Tier: "replay", Seed: seedEnv(), Idx: v.CaseIdx, Root: root(), Tmp: *tmp}
	p.Replay(c, v.Case)
	if err := rec.Flush(*outp, 0, 0, true); err != nil {
		os.Exit(4)
	}
}

// replayFile runs one replay file in a child process and returns its result (nil + reason if the child died).
func replayFile(self, prop, file, tmp string) (*Result, string) {
	out := filepath.Join(tmp, fmt.Sprintf("replay_%d.json", time.Now().UnixNano()))
	rtmp := out + ".d"
	_ = os.MkdirAll(rtmp, 0o755)
	cmd := exec.Command("timeout", "-s", "QUIT", "300", self, "replay-worker", "--prop", prop, "--file", file, "--out", out, "--tmp", rtmp)
	logf, _ := os.Create(out + ".log")
	cmd.Stdout, cmd.Stderr = logf, logf
	err := cmd.Run()
	logf.Close()
	b, rerr := os.ReadFile(out)
	if rerr != nil {
		lg, _ := os.ReadFile(out + ".log")
		return nil, fmt.Sprintf("replay child failed: %v: %s", err, tail(string(lg), 600))
	}
	var r Result
	if e := json.Unmarshal(b, &r); e != nil {
		return nil, e.Error()
	}
	return &r, ""
}

// headline: the line of a crash log that says what happened.
func headline(lg string) string {
	for _, l := range strings.Split(lg, "\n") {
		if strings.HasPrefix(l, "DEADLOCK:") || strings.HasPrefix(l, "fatal error:") || strings.HasPrefix(l, "panic:") {
			return trunc(l, 400) + " ... "
		}
	}
	return ""
}

func tail(s string, n int) string {
	if len(s) > n {
		return s[len(s)-n:]
	}
	return s
}

func runReplayCmd(id, file string) int {
	p := registry[id]
	if p == nil {
		fmt.Fprintln(os.Stderr, "unknown property", id)
		return 2
	}
	self, _ := os.Executable()
	tmp, _ := os.MkdirTemp("", "verif-replay-")
	defer os.RemoveAll(tmp)
	res, why := replayFile(self, id, file, tmp)
	if res == nil {
		fmt.Println("replay did not complete:", why)
		if p.FatalIsViolation {
			fmt.Printf("VIOLATION property=%s replay=%s\n", id, file)
			return 1
		}
		return 3
	}
	kf, _ := LoadKF(root())
	rc := 0
	for _, v := range res.Violations {
		if e := matchKnown(kf, id, v.Sig); e != nil {
			fmt.Printf("KNOWN-FINDING: property=%s %s %s\n", id, e.ID, e.Text)
			continue
		}
		fmt.Printf("VIOLATION property=%s replay=%s\n  class=%s %s\n", id, file, v.Class, v.Msg)
		rc = 1
	}
	if len(res.Violations) == 0 {
		fmt.Printf("replay of %s: property %s held on this case\n", file, id)
	}
	return rc
}

func matchKnown(kf []KFEntry, prop, sig string) *KFEntry {
	if sig == "" {
		return nil
	}
	for i := range kf {
		if kf[i].Kind == "known" && kf[i].Property == prop && kf[i].Sig == sig {
			return &kf[i]
		}
	}
	return nil
}

func runParent(id, tier string) int {
	t0 := time.Now()
	p := registry[id]
	if p == nil {
		fmt.Fprintln(os.Stderr, "unknown property", id)
		return 2
	}
	if tier != "quick" && tier != "thorough" {
		fmt.Fprintln(os.Stderr, "tier must be quick or thorough")
		return 2
	}
	seed := seedEnv()
	rt := root()
	self, _ := os.Executable()
	tmp, err := os.MkdirTemp(os.Getenv("VERIF_TMP"), "verif-run-")
	if err != nil {
		fmt.Fprintln(os.Stderr, err)
		return 2
	}
	defer os.RemoveAll(tmp)
	outDir := filepath.Join(rt, "out")
	_ = os.MkdirAll(outDir, 0o755)
	kf, err := LoadKF(rt)
	if err != nil {
		fmt.Fprintln(os.Stderr, "KNOWN_FINDINGS.txt:", err)
		return 2
	}
	var inconclusive []string
	merged := &Result{Property: id, Hist: map[string]int64{}, ViolCount: map[string]int64{}}
	seen := map[uint64]struct{}{}
	knownInfo := map[string]any{}
	var reported []Violation // unsuppressed violations
	var replayPaths []string

	// 1. known witnesses and regression cases
	for i := range kf {
		e := &kf[i]
		if e.Property != id {
			continue
		}
		switch e.Kind {
		case "known":
			still := false
			for _, w := range e.Witness {
				res, why := replayFile(self, id, filepath.Join(rt, w), tmp)
				if res == nil {
					if p.FatalIsViolation { // a dying child is how such findings may show
						still = true
					} else {
						inconclusive = append(inconclusive, "witness "+w+": "+why)
					}
					continue
				}
				for _, v := range res.Violations {
					if v.Sig == e.Sig {
						still = true
					} else {
						v.Msg = "while replaying witness " + w + ": " + v.Msg
						reported = append(reported, v)
						replayPaths = append(replayPaths, filepath.Join(rt, w))
					}
				}
			}
			if still {
				fmt.Printf("KNOWN-FINDING: property=%s %s %s\n", id, e.ID, e.Text)
			}
			knownInfo[e.ID] = map[string]any{"sig": e.Sig, "witness_still_violates": still}
		case "fixed":
			for _, w := range e.Regress {
				res, why := replayFile(self, id, filepath.Join(rt, w), tmp)
				if res == nil {
					v := Violation{Property: id, Class: "regression-child-died", Msg: "regression case " + w + " did not complete: " + why}
					reported = append(reported, v)
					replayPaths = append(replayPaths, filepath.Join(rt, w))
					continue
				}
				merged.Hist["regression_cases_replayed"]++
				for _, v := range res.Violations {
					if matchKnown(kf, id, v.Sig) != nil {
						continue
					}
					v.Msg = "regression of fixed finding (" + e.Commit + "): " + v.Msg
					reported = append(reported, v)
					replayPaths = append(replayPaths, filepath.Join(rt, w))
				}
			}
		}
	}

	// 2. workers
	W := p.Workers
	if W == 0 {
		W = runtime.NumCPU()
		if W > 16 {
			W = 16
		}
	}
	n := p.Cases(tier)
	if int64(W) > n {
		W = int(max(n, 1))
	}
	// generous wall-clock watchdog per worker; its firing only makes the run inconclusive
	wd := 1800
	if tier == "thorough" {
		wd = 6 * 3600
	}
	if p.Watchdog != nil {
		wd = max(wd, p.Watchdog(tier))
	}
	type wstate struct {
		start    int64
		skip     []string
		restarts int
		cmd      *exec.Cmd
		logf     *os.File
	}
	states := make([]*wstate, W)
	launch := func(w int) {
		st := states[w]
		args := []string{"-s", "QUIT", strconv.Itoa(wd), self, "worker", "--prop", id, "--tier", tier, "--seed", strconv.FormatInt(seed, 10),
			"--w", strconv.Itoa(w), "--W", strconv.Itoa(W), "--start", strconv.FormatInt(st.start, 10), "--skip", strings.Join(st.skip, ","), "--dir", tmp}
		if p.WorkerBin != nil {
			if wb := p.WorkerBin(tier); wb != "" {
				args[3] = wb
			}
		}
		st.cmd = exec.Command("timeout", args...)
		st.cmd.Env = append(append(os.Environ(), p.Env...), "GORACE=halt_on_error=0 log_path="+filepath.Join(tmp, "race"), "VERIF_RUN_TMP="+tmp)
		st.logf, _ = os.Create(filepath.Join(tmp, fmt.Sprintf("worker_%d_%d.log", w, st.start)))
		st.cmd.Stdout, st.cmd.Stderr = st.logf, st.logf
		if err := st.cmd.Start(); err != nil {
			inconclusive = append(inconclusive, "could not start worker: "+err.Error())
		}
	}
	if n > 0 {
		for w := 0; w < W; w++ {
			states[w] = &wstate{start: 0}
			launch(w)
		}
		for w := 0; w < W; w++ {
			st := states[w]
			for {
				err := st.cmd.Wait()
				st.logf.Close()
				resPath := filepath.Join(tmp, fmt.Sprintf("result_%d_%d.json", w, st.start))
				var res Result
				have := false
				if b, e := os.ReadFile(resPath); e == nil && json.Unmarshal(b, &res) == nil {
					have = true
				}
				if err == nil && have && res.Done {
					merged.Merge(&res, seen)
					break
				}
				// worker died
				code := -1
				if ee, ok := err.(*exec.ExitError); ok {
					code = ee.ExitCode()
				}
				lg, _ := os.ReadFile(st.logf.Name())
				if code == 124 || code == 137 {
					inconclusive = append(inconclusive, fmt.Sprintf("worker %d hit the wall-clock watchdog (%ds)", w, wd))
					if have {
						merged.Merge(&res, seen)
					}
					break
				}
				next := st.start
				if have {
					merged.Merge(&res, seen)
					next = res.Next
				}
				// attribute to the current case
				curIdx, curCase := readCurrent(filepath.Join(tmp, fmt.Sprintf("current_%d.txt", w)))
				v := Violation{Property: id, Class: "fatal", Msg: fmt.Sprintf("worker process died (exit %d) while executing this case: %s%s", code, headline(string(lg)), tail(string(lg), 1500)), Case: curCase, CaseIdx: curIdx}
				if p.FatalIsViolation {
					merged.ViolCount["fatal"]++
					merged.Violations = append(merged.Violations, v)
				} else {
					merged.AbortedCount++
					merged.Aborted = append(merged.Aborted, v)
				}
				st.restarts++
				if p.FatalIsViolation && merged.ViolCount["fatal"] >= 40 {
					// the verdict is settled (40 worker deaths are 40 violations): do not spend the rest of the budget on restarts
					inconclusive = append(inconclusive, fmt.Sprintf("stopped restarting worker %d after 40 fatal cases in this run (the cases behind them were not run)", w))
					break
				}
				if st.restarts > 200 || curIdx < 0 {
					inconclusive = append(inconclusive, fmt.Sprintf("worker %d died repeatedly (exit %d): %s", w, code, tail(string(lg), 400)))
					break
				}
				st.start = next
				st.skip = append(st.skip, strconv.FormatInt(curIdx, 10))
				launch(w)
			}
		}
	}

	// 3. parent-side extra steps
	pc := &ParentCtx{Tier: tier, Seed: seed, Root: rt, Tmp: tmp, Merged: merged, Seen: seen, Self: self, Extra: map[string]any{}}
	if p.Extra != nil {
		p.Extra(pc)
		inconclusive = append(inconclusive, pc.Inconclusive...)
	}

	// 4. classify violations
	suppressed := map[string]int64{}
	classSeen := map[string]bool{}
	for _, v := range merged.Violations {
		if e := matchKnown(kf, id, v.Sig); e != nil {
			continue
		}
		reported = append(reported, v)
		replayPaths = append(replayPaths, "")
	}
	for k, c := range merged.ViolCount {
		if strings.HasPrefix(k, "sig:") {
			if e := matchKnown(kf, id, k[4:]); e != nil {
				suppressed[e.ID] += c
			}
		}
	}
	nViol := 0
	for i, v := range reported {
		key := v.Class + "|" + v.Sig
		if classSeen[key] {
			continue
		}
		classSeen[key] = true
		nViol++
		path := replayPaths[i]
		if path == "" {
			path = filepath.Join(outDir, fmt.Sprintf("%s_%s_seed%d_%d.json", id, sanitize(v.Class), seed, v.CaseIdx))
			b, _ := json.MarshalIndent(v, "", " ")
			_ = os.WriteFile(path, b, 0o644)
		}
		fmt.Printf("VIOLATION property=%s replay=%s\n", id, path)
		fmt.Printf("  class=%s count=%d: %s\n", v.Class, violCount(merged, v), trunc(v.Msg, 1200))
	}
	var totalViol int64
	for k, c := range merged.ViolCount {
		if strings.HasPrefix(k, "sig:") && matchKnown(kf, id, k[4:]) != nil {
			continue
		}
		totalViol += c
	}
	if int64(nViol) > totalViol {
		totalViol = int64(nViol)
	}

	// 5. coverage requirements
	if p.Required != nil {
		for _, k := range p.Required(tier) {
			if merged.Hist[k] == 0 {
				inconclusive = append(inconclusive, "required class not observed: "+k)
			}
		}
	}
	minNT := p.MinNonTriv
	if minNT < 2 {
		minNT = 2
	}
	if int64(len(seen)) < minNT {
		inconclusive = append(inconclusive, fmt.Sprintf("only %d distinct non-trivial cases (need %d)", len(seen), minNT))
	}
	if merged.Evaluations > 0 && merged.AbortedCount*2 > merged.Evaluations {
		inconclusive = append(inconclusive, fmt.Sprintf("%d of %d cases aborted by unexpected panics", merged.AbortedCount, merged.Evaluations))
	}

	// 6. evidence
	cov := map[string]any{
		"evaluations":            merged.Evaluations,
		"distinct_nontrivial":    len(seen),
		"rule":                   p.Rule,
		"samples":                merged.Samples,
		"histogram":              merged.Hist,
		"known_findings":         knownInfo,
		"known_findings_matched": suppressed,
		"aborted_cases":          merged.AbortedCount,
		"workers":                W,
		"cases_planned":          n,
		"verdict":                "held on what was observed",
	}
	if len(merged.Aborted) > 0 {
		ab := []string{}
		for _, a := range merged.Aborted {
			ab = append(ab, trunc(a.Msg, 300))
		}
		cov["aborted_samples"] = ab
	}
	if len(p.Exhaustive) > 0 {
		ex := []map[string]any{}
		for k, d := range p.Exhaustive {
			if merged.Hist[k] > 0 {
				ex = append(ex, map[string]any{"subspace": d, "cases": merged.Hist[k]})
			}
		}
		cov["exhaustive_subspaces"] = ex
	}
	for k, v := range pc.Extra {
		cov[k] = v
	}
	for name, n := range merged.SetSizes() {
		cov["distinct_"+name] = n
	}
	if len(merged.Notes) > 0 {
		cov["notes"] = merged.Notes
	}
	if merged.Samples == nil {
		cov["samples"] = []any{}
	}
	rc := 0
	if nViol > 0 {
		rc = 1
		cov["verdict"] = "violated"
		vs := []map[string]any{}
		for _, v := range reported {
			vs = append(vs, map[string]any{"class": v.Class, "sig": v.Sig, "msg": trunc(v.Msg, 500), "case_idx": v.CaseIdx})
			if len(vs) >= 10 {
				break
			}
		}
		cov["violation_witnesses"] = vs
	} else if len(inconclusive) > 0 {
		rc = 3
		cov["verdict"] = "inconclusive"
		cov["inconclusive_reasons"] = inconclusive
	}
	ev := map[string]any{
		"property_id": id,
		"tier":        tier,
		"seed":        seed,
		"level":       "exploration",
		"coverage":    cov,
		"assumptions": p.Assumptions,
		"wall_s":      time.Since(t0).Seconds(),
		"violations":  totalViol,
	}
	if p.Assumptions == nil {
		ev["assumptions"] = []string{}
	}
	b, _ := json.MarshalIndent(ev, "", " ")
	_ = os.MkdirAll(filepath.Join(rt, "evidence"), 0o755)
	if err := os.WriteFile(filepath.Join(rt, "evidence", id+".json"), b, 0o644); err != nil {
		fmt.Fprintln(os.Stderr, "evidence:", err)
	}
	fmt.Printf("%s %s seed=%d: %d cases, %d distinct non-trivial, %d violations (%d matched known findings), %d aborted, %.1fs -> %s\n",
		id, tier, seed, merged.Evaluations, len(seen), totalViol, sum(suppressed), merged.AbortedCount, time.Since(t0).Seconds(), cov["verdict"])
	for _, r := range inconclusive {
		fmt.Println("INCONCLUSIVE:", trunc(r, 600))
	}
	return rc
}

func violCount(m *Result, v Violation) int64 {
	if v.Sig != "" {
		return m.ViolCount["sig:"+v.Sig]
	}
	return m.ViolCount[v.Class]
}

func sum(m map[string]int64) int64 {
	var s int64
	for _, v := range m {
		s += v
	}
	return s
}

func trunc(s string, n int) string {
	if len(s) > n {
		return s[:n] + "…"
	}
	return s
}

func sanitize(s string) string {
	b := []byte(s)
	for i, c := range b {
		if !(c >= 'a' && c <= 'z' || c >= 'A' && c <= 'Z' || c >= '0' && c <= '9' || c == '-') {
			b[i] = '_'
		}
	}
	if len(b) > 40 {
		b = b[:40]
	}
	return string(b)
}

func readCurrent(path string) (int64, json.RawMessage) {
	b, err := os.ReadFile(path)
	if err != nil {
		return -1, nil
	}
	i := strings.IndexByte(string(b), '\n')
	if i < 0 {
		return -1, nil
	}
	idx, err := strconv.ParseInt(string(b[:i]), 10, 64)
	if err != nil {
		return -1, nil
	}
	rest := b[i+1:]
	if !json.Valid(rest) {
		rest, _ = json.Marshal(string(rest))
	}
	return idx, rest
}
