package fw

import (
	"bufio"
	"os"
	"path/filepath"
	"strings"
)

// KFEntry is one line of KNOWN_FINDINGS.txt.
//
//	known: property=<ID> id=<KF-n> sig=<signature> witness=known/<file>.json  <what fails>
//	fixed: property=<ID> <commit> <what failed>  [regress=known/<file>.json[,known/<file2>.json]]
type KFEntry struct {
	Kind     string // known | fixed
	Property string
	ID       string
	Sig      string
	Witness  []string
	Regress  []string
	Commit   string
	Text     string
}

// LoadKF parses the committed known-findings file. It is never written at run time.
func LoadKF(root string) ([]KFEntry, error) {
	f, err := os.Open(filepath.Join(root, "KNOWN_FINDINGS.txt"))
	if err != nil {
		if os.IsNotExist(err) {
			return nil, nil
		}
		return nil, err
	}
	defer f.Close()
	var out []KFEntry
	sc := bufio.NewScanner(f)
	sc.Buffer(make([]byte, 1<<20), 1<<20)
	for sc.Scan() {
		line := strings.TrimSpace(sc.Text())
		if line == "" || strings.HasPrefix(line, "#") {
			continue
		}
		var e KFEntry
		switch {
		case strings.HasPrefix(line, "known:"):
			e.Kind = "known"
			line = strings.TrimSpace(line[len("known:"):])
		case strings.HasPrefix(line, "fixed:"):
			e.Kind = "fixed"
			line = strings.TrimSpace(line[len("fixed:"):])
		default:
			continue
		}
		var text []string
		for _, tok := range strings.Fields(line) {
			switch {
			case strings.HasPrefix(tok, "property="):
				e.Property = tok[len("property="):]
			case strings.HasPrefix(tok, "id="):
				e.ID = tok[len("id="):]
			case strings.HasPrefix(tok, "sig="):
				e.Sig = tok[len("sig="):]
			case strings.HasPrefix(tok, "witness="):
				e.Witness = strings.Split(tok[len("witness="):], ",")
			case strings.HasPrefix(tok, "regress="):
				e.Regress = strings.Split(tok[len("regress="):], ",")
			default:
				if e.Kind == "fixed" && e.Commit == "" && len(text) == 0 {
					e.Commit = tok
				} else {
					text = append(text, tok)
				}
			}
		}
		e.Text = strings.Join(text, " ")
		out = append(out, e)
	}
	return out, sc.Err()
}
