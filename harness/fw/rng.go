// Package fw is the shared machinery of the runtime-monitoring harness: deterministic case streams,
// worker processes, recorders, known findings, evidence and replay files.
package fw

import (
	"hash/fnv"
	"math"
)

// Rng is a SplitMix64 stream. Case lists are determined by the seed and the case index only, never by time.
type Rng struct{ s uint64 }

func NewRng(seed uint64) *Rng { return &Rng{s: seed} }

// CaseRng derives the stream for one case of one property.
func CaseRng(seed int64, prop string, stream string, idx int64) *Rng {
	h := fnv.New64a()
	h.Write([]byte(prop))
	h.Write([]byte{0})
	h.Write([]byte(stream))
	r := &Rng{s: uint64(seed)*0x9E3779B97F4A7C15 ^ h.Sum64() ^ uint64(idx)*0xD1B54A32D192ED03}
	r.Uint64()
	r.Uint64()
	return r
}

func (r *Rng) Uint64() uint64 {
	r.s += 0x9E3779B97F4A7C15
	z := r.s
	z = (z ^ (z >> 30)) * 0xBF58476D1CE4E5B9
	z = (z ^ (z >> 27)) * 0x94D049BB133111EB
	return z ^ (z >> 31)
}

func (r *Rng) Intn(n int) int {
	if n <= 0 {
		return 0
	}
	return int(r.Uint64() % uint64(n))
}
func (r *Rng) Int63n(n int64) int64 {
	if n <= 0 {
		return 0
	}
	return int64(r.Uint64() % uint64(n))
}
func (r *Rng) Float64() float64 { return float64(r.Uint64()>>11) / float64(1<<53) }
func (r *Rng) Bool() bool       { return r.Uint64()&1 == 1 }

// Chance is true with probability num/den.
func (r *Rng) Chance(num, den int) bool { return r.Intn(den) < num }
func (r *Rng) Range(lo, hi int) int     { return lo + r.Intn(hi-lo+1) } // inclusive
func (r *Rng) Perm(n int) []int {
	p := make([]int, n)
	for i := range p {
		p[i] = i
	}
	for i := n - 1; i > 0; i-- {
		j := r.Intn(i + 1)
		p[i], p[j] = p[j], p[i]
	}
	return p
}
func (r *Rng) NormFloat() float64 {
	u1, u2 := r.Float64(), r.Float64()
	if u1 < 1e-300 {
		u1 = 1e-300
	}
	return math.Sqrt(-2*math.Log(u1)) * math.Cos(2*math.Pi*u2)
}

func Pick[T any](r *Rng, xs []T) T { return xs[r.Intn(len(xs))] }

// Hash64 of bytes (FNV-1a), used for distinct-case counting.
func Hash64(b []byte) uint64 {
	h := fnv.New64a()
	h.Write(b)
	return h.Sum64()
}
