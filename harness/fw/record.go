package fw

import (
	"encoding/json"
	"fmt"
	"os"
	"sort"
	"strconv"
)

// Violation is one observed refutation of a property on one concrete case.
type Violation struct {
	Property string          `json:"property"`
	Class    string          `json:"class"`         // what failed, e.g. "crossing", "extra-pixel"
	Sig      string          `json:"sig,omitempty"` // known-finding signature this violation matches, if any (decided by the monitor from facts, not from the file)
	Msg      string          `json:"msg"`
	Case     json.RawMessage `json:"case"`             // the concrete case, enough to re-execute it
	Detail   any             `json:"detail,omitempty"` // oracle expectation, observed output, ...
	CaseIdx  int64           `json:"case_idx"`
}

// Result is what one worker (or one replay) reports.
type Result struct {
	Property     string              `json:"property"`
	Start, Next  int64               // case index range covered [Start, Next) restricted to this worker's residue
	Done         bool                `json:"done"`
	Evaluations  int64               `json:"evaluations"`
	NonTrivial   []uint64            `json:"nontrivial_hashes"`
	Hist         map[string]int64    `json:"hist"`
	Violations   []Violation         `json:"violations"` // capped per class
	ViolCount    map[string]int64    `json:"viol_count"` // class (or "sig:<sig>") -> count
	Samples      []any               `json:"samples"`
	Aborted      []Violation         `json:"aborted"` // cases that ended in an unexpected Go panic (not judged by this property)
	AbortedCount int64               `json:"aborted_count"`
	Notes        []string            `json:"notes,omitempty"`
	Sets         map[string][]uint64 `json:"sets,omitempty"` // named sets of hashes (e.g. interleaving signatures), counted distinct by the parent
	setAcc       map[string]map[uint64]struct{}
}

// Recorder collects observations inside a worker.
type Recorder struct {
	Prop       string
	res        Result
	seen       map[uint64]struct{}
	curPath    string
	CurIdx     int64
	perClass   map[string]int
	MaxSamples int
	sets       map[string]map[uint64]struct{}
}

func NewRecorder(prop string, curPath string) *Recorder {
	return &Recorder{Prop: prop, curPath: curPath, seen: map[uint64]struct{}{}, perClass: map[string]int{}, MaxSamples: 3,
		res: Result{Property: prop, Hist: map[string]int64{}, ViolCount: map[string]int64{}}}
}

// SetCurrent writes the case to the current-case file before texel is called, so a fatal error is attributable.
func (r *Recorder) SetCurrent(caseJSON []byte) {
	if r.curPath == "" {
		return
	}
	f, err := os.OpenFile(r.curPath, os.O_WRONLY|os.O_CREATE|os.O_TRUNC, 0o644)
	if err != nil {
		return
	}
	fmt.Fprintf(f, "%d\n", r.CurIdx)
	f.Write(caseJSON)
	f.Close()
}

func (r *Recorder) Eval()                   { r.res.Evaluations++ }
func (r *Recorder) Evals(n int64)           { r.res.Evaluations += n }
func (r *Recorder) Count(key string)        { r.res.Hist[key]++ }
func (r *Recorder) Add(key string, n int64) { r.res.Hist[key] += n }

// Max keeps the maximum under the key "max:<key>".
func (r *Recorder) Max(key string, v int64) {
	key = "max:" + key
	if v > r.res.Hist[key] {
		r.res.Hist[key] = v
	}
}
func (r *Recorder) Note(s string) {
	if len(r.res.Notes) < 20 {
		r.res.Notes = append(r.res.Notes, s)
	}
}

// NonTrivial registers a non-trivial case by the hash of its canonical form.
func (r *Recorder) NonTrivial(h uint64) {
	if _, ok := r.seen[h]; !ok {
		r.seen[h] = struct{}{}
	}
}

// Distinct adds a hash to a named set (the parent reports the number of distinct members).
func (r *Recorder) Distinct(name string, h uint64) {
	if r.sets == nil {
		r.sets = map[string]map[uint64]struct{}{}
	}
	if r.sets[name] == nil {
		r.sets[name] = map[uint64]struct{}{}
	}
	r.sets[name][h] = struct{}{}
}

func (r *Recorder) Sample(s any) {
	if len(r.res.Samples) < r.MaxSamples {
		r.res.Samples = append(r.res.Samples, s)
	}
}
func (r *Recorder) WantSample() bool { return len(r.res.Samples) < r.MaxSamples }

// Violation records a violation; at most 5 full witnesses per class are kept, all are counted.
func (r *Recorder) Violation(class, sig, msg string, caseJSON []byte, detail any) {
	key := class
	if sig != "" {
		key = "sig:" + sig
	}
	r.res.ViolCount[key]++
	if len(msg) > 6000 { // the case itself is in the replay file; a message is for reading
		msg = msg[:4000] + " ...[" + strconv.Itoa(len(msg)-5000) + " bytes cut]... " + msg[len(msg)-1000:]
	}
	if r.perClass[key] < 5 {
		r.perClass[key]++
		r.res.Violations = append(r.res.Violations, Violation{Property: r.Prop, Class: class, Sig: sig, Msg: msg, Case: append([]byte{}, caseJSON...), Detail: detail, CaseIdx: r.CurIdx})
	}
}

// Abort records a case that could not be judged because texel panicked unexpectedly.
func (r *Recorder) Abort(msg string, caseJSON []byte) {
	r.res.AbortedCount++
	if len(r.res.Aborted) < 5 {
		r.res.Aborted = append(r.res.Aborted, Violation{Property: r.Prop, Class: "aborted", Msg: msg, Case: append([]byte{}, caseJSON...), CaseIdx: r.CurIdx})
	}
}

func (r *Recorder) Result() *Result {
	r.res.NonTrivial = r.res.NonTrivial[:0]
	for h := range r.seen {
		r.res.NonTrivial = append(r.res.NonTrivial, h)
	}
	sort.Slice(r.res.NonTrivial, func(i, j int) bool { return r.res.NonTrivial[i] < r.res.NonTrivial[j] })
	r.res.Sets = map[string][]uint64{}
	for name, set := range r.sets {
		for h := range set {
			r.res.Sets[name] = append(r.res.Sets[name], h)
		}
	}
	return &r.res
}

// Flush writes the result atomically.
func (r *Recorder) Flush(path string, start, next int64, done bool) error {
	res := r.Result()
	res.Start, res.Next, res.Done = start, next, done
	b, err := json.Marshal(res)
	if err != nil {
		return err
	}
	if err := os.WriteFile(path+".tmp", b, 0o644); err != nil {
		return err
	}
	return os.Rename(path+".tmp", path)
}

// Merge adds o into m.
func (m *Result) Merge(o *Result, seen map[uint64]struct{}) {
	m.Evaluations += o.Evaluations
	for _, h := range o.NonTrivial {
		seen[h] = struct{}{}
	}
	if m.Hist == nil {
		m.Hist = map[string]int64{}
	}
	if m.ViolCount == nil {
		m.ViolCount = map[string]int64{}
	}
	for k, v := range o.Hist {
		if len(k) > 4 && k[:4] == "max:" {
			if v > m.Hist[k] {
				m.Hist[k] = v
			}
		} else {
			m.Hist[k] += v
		}
	}
	for k, v := range o.ViolCount {
		m.ViolCount[k] += v
	}
	m.Violations = append(m.Violations, o.Violations...)
	m.Aborted = append(m.Aborted, o.Aborted...)
	m.AbortedCount += o.AbortedCount
	for _, s := range o.Samples {
		if len(m.Samples) < 4 {
			m.Samples = append(m.Samples, s)
		}
	}
	m.Notes = append(m.Notes, o.Notes...)
	if m.setAcc == nil {
		m.setAcc = map[string]map[uint64]struct{}{}
	}
	for name, hs := range o.Sets {
		if m.setAcc[name] == nil {
			m.setAcc[name] = map[uint64]struct{}{}
		}
		for _, h := range hs {
			m.setAcc[name][h] = struct{}{}
		}
	}
}

// SetSizes: number of distinct members per named set after merging.
func (m *Result) SetSizes() map[string]int {
	out := map[string]int{}
	for name, s := range m.setAcc {
		out[name] = len(s)
	}
	return out
}
