#!/usr/bin/env python3
"""Mutation sweep over the routing core (pointindex.go): flips every certain/mutex flag of the quadrant table and every
comparison operator of lineIntersects / containsPoint / getInfiniteQuadrant / InsertCoord, one at a time, on a scratch copy
of the repository; mutants that still pass the repository's own tests are run against ./check C02 quick (and C09 for
InsertCoord). Prints one line per mutant. Usage: tools/flag_sweep.py <repo> [max] [--only=i,j,...] [--tier=thorough]   (run from a /verif snapshot)"""
import re, subprocess, sys, os, shutil, tempfile
repo = sys.argv[1]
limit = 10**9
only = None
tier = 'quick'
for a in sys.argv[2:]:
    if a.startswith('--only='):
        only = set(int(x) for x in a[7:].split(','))
    elif a.startswith('--tier='):
        tier = a[7:]
    else:
        limit = int(a)
env = dict(os.environ, GOFLAGS='-mod=mod', GOPROXY='off', GOSUMDB='off', GOTOOLCHAIN='local')
src = open(os.path.join(repo, 'pointindex/pointindex.go')).read().split('\n')
def func_range(name):
    start = next(i for i, l in enumerate(src) if l.startswith('func ' + name) or l.startswith('func (ix *PointIndex) ' + name))
    end = next(i for i in range(start + 1, len(src)) if src[i] == '}')
    return start, end
muts = []
a, b = func_range('findIntersectingQuadrants')
for i in range(a, b):
    m = re.search(r'\{(.*), (true|false), (true|false)\}', src[i])
    if m:
        for g in (2, 3):
            old = m.group(g); new = 'false' if old == 'true' else 'true'
            s, e = m.span(g)
            muts.append((i, s, e, new, f'quadrant table line {i+1} flag {"certain" if g==2 else "mutex"} {old}->{new}', ['C02']))
ops = {'<=': '<', '>=': '>', '<': '<=', '>': '>=', '==': '!='}
for fn, checks in (('lineIntersects', ['C02']), ('containsPoint', ['C02']), ('getInfiniteQuadrant', ['C02']), ('InsertCoord', ['C09', 'C02'])):
    a, b = func_range(fn)
    for i in range(a, b):
        if src[i].lstrip().startswith('//'):
            continue
        for m in re.finditer(r' (<=|>=|<|>|==) ', src[i]):
            s, e = m.span(1)
            muts.append((i, s, e, ops[m.group(1)], f'{fn} line {i+1} col {s}: {m.group(1)} -> {ops[m.group(1)]}', checks))
print(len(muts), 'mutants', flush=True)
work = tempfile.mkdtemp(prefix='flagsweep-')
copy = os.path.join(work, 'repo')
shutil.copytree(repo, copy, ignore=shutil.ignore_patterns('.git'))
res = {'killed_by_repo_tests': 0, 'caught': 0, 'missed': 0}
try:
    for k, (i, s, e, new, desc, checks) in enumerate(muts[:limit]):
        if only is not None and k not in only:
            continue
        lines = list(src)
        lines[i] = lines[i][:s] + new + lines[i][e:]
        open(os.path.join(copy, 'pointindex/pointindex.go'), 'w').write('\n'.join(lines))
        r = subprocess.run(['go', 'test', '-vet=off', '-count=1', './pointindex', './snap'], cwd=copy, env=env, capture_output=True, text=True)
        if r.returncode != 0:
            res['killed_by_repo_tests'] += 1
            print(f'[{k}] {desc}: killed by the repository tests', flush=True)
            continue
        verdicts = []
        caught = False
        for c in checks:
            r = subprocess.run(['./check', c, tier], env=dict(env, VERIF_REPO=copy), capture_output=True, text=True)
            n = sum(1 for l in r.stdout.split('\n') if l.startswith('VIOLATION'))
            verdicts.append(f'{c}: exit {r.returncode}, {n} violation classes')
            caught = caught or r.returncode == 1
        res['caught' if caught else 'missed'] += 1
        print(f'[{k}] {desc}: survives the repository tests; ' + '; '.join(verdicts) + (' => CAUGHT' if caught else ' => MISSED'), flush=True)
finally:
    shutil.rmtree(work, ignore_errors=True)
print('SUMMARY', res, flush=True)
