#!/usr/bin/env python3
"""tools/mkprompt.py <round> <ID>...  writes /tmp/prompt<round>_<ID>.txt for a fresh sub-agent: the property text, the
avoid-list (one line per seeded change already kept for that property, from seeded/*/meta.json) and a description of how
hostile the checker is by now. The agent gets nothing else from /verif. Worktree: git -C /repo worktree add --detach /tmp/w<round>_<ID> HEAD"""
import json, sys, glob
rnd = sys.argv[1]
props = {json.loads(l)['id']: json.loads(l) for l in open('/verif/properties.jsonl')}
metas = [json.load(open(f)) for f in sorted(glob.glob('/verif/seeded/*/meta.json'))]
HINT = {
 'C10': 'Note: libspatialite is not installed; a demonstration that uses fake in-memory implementations of the processing.Source / processing.Target interfaces is simplest.',
 'C11': 'Note: libspatialite is not installed; a demonstration that uses fake in-memory implementations of the processing.Source / processing.Target interfaces is simplest.',
 'C12': 'Note: libspatialite is not installed, but with the build tag `verif` the project registers a pure-Go stand-in for the spatialite SQL functions (processing/gpkg/verif_spatialite.go), so GeoPackage demos work when built with -tags verif.',
 'C13': 'Note: libspatialite is not installed, but with the build tag `verif` the project registers a pure-Go stand-in for the spatialite SQL functions (processing/gpkg/verif_spatialite.go), so GeoPackage demos work when built with -tags verif. Never pass files that live inside the worktree as -s source to the tool (the GeoPackage library modifies every file it opens); copy them to a temp dir first.',
}
for pid in sys.argv[2:]:
    p = props[pid]; wt = f'/tmp/w{rnd}_{pid}'
    avoid = [m['change'] for m in metas if m['property'] == pid or pid in m.get('also_breaks', [])]
    txt = f"""You are helping test a verification setup by playing the role of a developer who introduces a subtle bug.

Repository: a git worktree of the Go project PDOK/texel at {wt} (a CLI that snaps GeoPackage polygons to vector-tile pixel grids). Work ONLY inside {wt}. Do NOT read or touch /verif, /repo, /root/scratch or any other directory (you may read the Go module cache under /root/go/pkg/mod for third-party sources). There is no network. For every shell command first run: export GOFLAGS=-mod=mod GOPROXY=off GOSUMDB=off GOTOOLCHAIN=local

The project states this semantic property, which currently holds:

  {pid}: {p['title']}
  {p['statement']}

Your task: make ONE small, realistic source change to the project (non-test .go files only; do not edit *_test.go files, go.mod, or files with the build tag `verif`) that BREAKS this property, while
  (a) the project still compiles (`go build ./... && go build -tags verif ./...`), and
  (b) the existing test suite still passes completely: `go test -vet=off -count=1 ./...`.
The change should look like a plausible refactoring slip, optimisation or off-by-one - not sabotage - and should need something SPECIFIC to manifest (an unusual input, a particular alignment of coordinates with the pixel grid, a particular interleaving, a multi-step sequence, a particular flag combination, or two cooperating edits that each look fine alone) rather than breaking on every ordinary use. Prefer a different mechanism than the most obvious one.

Colleagues have ALREADY tried the following ideas; do NOT reuse any of them or a close variant:
""" + ''.join(f'   - {a}\n' for a in avoid) + f"""
Assume the project is also guarded by a strong randomized checker that snaps/processes millions of randomly generated inputs and compares the results with an exact independent oracle: random polygons of up to ~25 vertices in windows of a few pixels (also with vertices stored twice in a row), saws of sub-pixel teeth built to reach every branch of the zigzag removal, shells with edges millions of pixels long and holes next to their ends, but also long thin slivers, combs and spirals of hundreds of vertices, inlets and chains of ponds with thousands of vertices per ring, sheets with hundreds of holes, islands in lakes in islands several levels deep with holes listed in any order, shells pinched into interlocking lobes, polygons of up to 70 000 points, edges that run across most of the extent and graze pixel corners; on many grids: built-in sets (NetherlandsRDNewQuad, WebMercatorQuad, ETRS89 LAEA, ...) and translated copies of them, twin sets that share id, origin numbers, origin pointer, corner and root cell size but are different grids (other axis order, other root matrix size), copies of built-in sets with their informative members (boundingBox, orderedAxes) varied, synthetic sets with power-of-two and with two-decimal origins (both corner conventions, corners that truncate unevenly when converted to integers), sets up to 36 levels deep, sets far from the CRS origin (ordinates up to 7e8), tile widths that are not powers of two; windows also next to the corners, side middles and centre of the extent and on quadtree boundaries of every depth; random tile matrix subsets incl. repeated ids and gaps; inputs whose rings share one backing array; vertices outside the extent on one or two sides at any distance up to the largest float64; all flag combinations; every call repeated, repeated in fresh processes and repeated while other calls run concurrently (also under the race detector); random tile-matrix-set documents with 1-3 structural mutations incl. extreme integer ids, origins moved by one ulp, and text-level damage, decoded and re-encoded in long sequences within one process and through the file loader; random feature streams with 1-48 targets (ids also negative or sparse), up to 600 000 features, multipolygons of up to 20 000 parts, stalling sources and lagging targets; multi-table GeoPackages whose tables overlap, with unusual SRS rows, mixed-case type names and date/time attributes, under paths with characters that are special in URIs, globs and format strings; files that are replaced by other documents of equal length, time stamp and CRC-32; the command line tool with 1-16 tile matrices per run, configured by flags or by environment variables; Z-order keys checked directly (also decode before any encode) and through the point index. Aim for a change that such a checker would most likely MISS: one that needs a structured or large input, a rare numeric coincidence, a specific history of earlier calls in the same process, an unusual but legal configuration, or two cooperating edits. Explain in NOTES.md why you think random inputs of that kind would not hit it. {HINT.get(pid, '')}

Deliver, all inside {wt}:
  1. the change applied to the working tree (leave it uncommitted);
  2. {wt}/DEMO/ containing a demonstration - a Go test file or small Go program, with a README line saying how to run it from the worktree root - that FAILS (or prints a clear violation and exits non-zero) with your change and PASSES (exit 0) on the original code (verify both: to check the original use `git diff > {wt}.diff; git apply -R {wt}.diff; ...run the demo...; git apply {wt}.diff` - do NOT use `git stash`, the stash is shared with other worktrees of this repository that colleagues are working in; the DEMO directory is untracked: write the demo as a program in its own directory under DEMO/ that imports github.com/pdok/texel/..., or keep a demo test under DEMO/ and copy it into the package directory only while running it);
  3. {wt}/DEMO/NOTES.md: which file/function you changed, why it breaks the property, what exactly is needed for it to manifest, the output of the demo with and without the change, and confirmation that `go test -vet=off -count=1 ./...` passes with the change.
If a build rewrites go.mod as a side effect, restore it (`git checkout go.mod`). Finish by running `git -C {wt} diff > {wt}/DEMO/patch.diff` (the diff of tracked files only). Keep the final report short: the changed function, the trigger condition, and whether all three verifications (build, suite passes, demo fails-with/passes-without) succeeded.
"""
    open(f'/tmp/prompt{rnd}_{pid}.txt', 'w').write(txt)
    print(f'/tmp/prompt{rnd}_{pid}.txt', len(avoid), 'avoid entries')
