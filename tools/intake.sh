#!/usr/bin/env bash
# tools/intake.sh <round> <ID> "<check ids>" <demo command...>
# copies /tmp/w<round>_<ID>/DEMO to seeded/<ID>-r<round>, confirms it in a fresh worktree, runs the listed quick checks against it.
set -u
r="$1"; id="$2"; checks="$3"; shift 3
d=/verif/seeded/$id-r$r
mkdir -p "$d"; cp -r /tmp/w${r}_$id/DEMO/. "$d"/
echo "### verify $id-r$r"; /verif/tools/verify_patch.sh "$d" "$@" 2>&1 | tail -9
echo "### try"; /verif/tools/try_mutant.sh "$d/patch.diff" quick $checks 2>&1 | tail -14
