#!/usr/bin/env python3
"""Writes /verif/MANIFEST.json from the table below (kept in one place so it stays valid)."""
import json, os, subprocess
ROOT = os.path.dirname(os.path.dirname(os.path.abspath(__file__)))

CHECKS = {
 "C01": ("4 C01", "exact pairwise proper-crossing oracle over the return value of snap.SnapPolygon for generated valid polygons: 14 hostile generators incl. nested topology (moat), structured/large inputs (big: 40-150 vertices, spirals, long slivers) and a sheet with hundreds of holes (huge); dyadic (levels 4-31), RD, WebMercator, ETRS89 grids; repeated ids in requests; rings passed as windows of one array; all flags",
         "explores executions only: windows <= 13 pixels, <= 25 vertices per ring; validity and crossings decided on the tool's 1e-10 integer coordinates; known finding KF-F5 (invented edge at multiplicity >= 3) is suppressed by signature only",
         "runtime monitor: exact crossing oracle on SnapPolygon output"),
 "C02": ("4 C02", "reference-model monitor: SnapClosestPoints and non-collapsing SnapPolygon results compared element-by-element with an exact rational closed-segment/half-open-pixel router; the 3x3-pixel quarter-lattice window is enumerated completely in the thorough tier",
         "hot pixels are those of the inserted points; random part samples, only the window sub-space is exhaustive",
         "runtime monitor: exact routing reference model"),
 "C04": ("4 C04", "exact half-pixel tube test for every output edge, hot-pixel test for every vertex, and coverage equivalence on half-pixel lattice samples farther than one pixel from the input boundary",
         "Chebyshev distance for the one-pixel filter; sample lattice capped at 40x40 per polygon and matrix; KF-F5 suppressed by signature",
         "runtime monitor: exact tube / coverage oracle"),
 "C18": ("4 C18", "exact big-integer signed-area conservation, edge provenance (routed edge or straight run) and hole-in-shell test whenever the oracle's routed boundary has multiplicity <= 2",
         "routed boundary computed by the C02 oracle; cases with multiplicity >= 3 are counted but not judged, as the property states",
         "runtime monitor: exact conservation oracle"),
 "C03": ("4 C03", "200-bit-float oracle: every ordinate returned by SnapPolygon on every accepted built-in set lies within the reported deviation (+1e-8) of an ideal pixel centre of the grid anchored at the extent corner with pixel size root extent / 2^level; pixel size x 16 equals the document's cell size within 1e-6",
         "ideal pixel size derived from the root matrix by halving; levels > 32 excluded (C06 KF-L33); extent corner from MatrixBoundingBox (C15)",
         "runtime monitor: high-precision pixel-centre oracle"),
 "C05": ("4 C05", "ring well-formedness oracle on pixel indices (orientation by exact area, closing duplicate, consecutive and repeated vertices, ring size, empty lists) for valid and invalid inputs, plus the relational keep-off/keep-on prefix check on the same polygon",
         "zero-area rings with >= 3 vertices are counted, not judged; panics are C06's",
         "runtime monitor: structural oracle + relational check"),
 "C06": ("4 C06", "termination-mode observer: every in-extent polygon (hostile junk/motif generators, 1-2 point rings, deep levels, border slivers) must return normally; Go panics are caught with their top texel frame, fatal errors are attributed through the case file written before the call, loops are bounded by logical step budgets of hook H3; two known findings suppressed by signature",
         "'small polynomial time' restated as step budgets 8N^2/64N^3 on the kmp loops; wall-clock watchdog only yields inconclusive",
         "runtime monitor: termination observer with loop-step budgets (hook H3)"),
 "C07": ("4 C07", "metamorphic equality: 4 repetitions in-process, 3 further generations of fresh processes per case (result hashes), reversed id list, every subset of rings reversed, reverse-winding toggled",
         "'every process' sampled on one machine; ring comparisons up to start-vertex rotation; near-degenerate rings (area within float->int noise) are not counted as valid",
         "runtime monitor: metamorphic determinism checks across processes"),
 "C08": ("4 C08", "metamorphic equality of SnapPolygon(p,S)[z] and SnapPolygon(p,{z})[z] for random subsets of round grids, key-set containment",
         "roundness decided by the oracle on the integer extent",
         "runtime monitor: alone-vs-together equality"),
 "C09": ("4 C09", "outside-extent oracle on the tool's integer ordinates: panic value type without the ignore flag, empty result with it, InsertPoint error, for vertices from 1 unit to 10^6 pixels (and astronomically far) outside each border and each corner region",
         "distances below 1e-10 CRS units are not representable in the tool and not generated",
         "runtime monitor: rejection oracle on panic value / result / error"),
 "C14": ("4 C14", "independent true-quadtree predicate on JSON documents vs validation verdicts for all built-ins and the complete perturbation set (single fields and square-preserving pairs) (in-process), pixel size measured through the index, and the real binary's exit mode (error / panic / proceeds) through hook H2",
         "requested ids always present in the document; cell-size perturbations below 1 % carry no demand",
         "runtime monitor: validation verdict oracle in-process and at the process boundary"),
 "C15": ("4 C15", "200-bit-float reference model of tile corners, point-to-tile lookup (interior points and points a few ulp inside each edge), outside points and matrix bounding boxes for every matrix of every built-in set in both corner conventions",
         "tolerance 5e-10 (9-decimal rounding) + 4 ulp of the largest intermediate magnitude; x,y order from orderedAxes",
         "runtime monitor: reference model of tile addressing"),
 "C16": ("4 C16", "decode/encode/decode round-trip oracle (deep value equality incl. dynamic CRS type, byte-stable second encoding, semantic equality with the original for unmodified documents), history clauses (encoding of a decoded value unchanged by decoding sibling documents; embedded sets still equal to their documents after thousands of decodes) and demanded-reject / no-panic oracle over 1-3 composed structural mutations of 15 documents",
         "accept/reject demanded only for the classes the statement names; nil and empty lists are equal",
         "runtime monitor: round-trip and rejection oracle over mutated documents"),
 "C17": ("4 C17", "bit-by-bit reference interleave vs ToZ/FromZ/MustToZ: equality, round trip, parent key, ok flag; all <=2-bit patterns and all 8-bit pairs at three shifts exhaustively, random pairs otherwise; plus the keys as the point index uses them: pixels inserted by address on indexes of 8-36 levels, look-ups checked against the ancestors the addresses predict, addresses above 32 bits must be reported or at least not aliased",
         "2^64 pairs cannot be enumerated",
         "runtime monitor: reference-model comparison"),
 "C10": ("4 C10", "offline history checker over what fake targets received through the real processing.ProcessFeatures (unique feature ids, sequential model): exactly-once, no foreign feature, source order, geometry/attribute identity, tile matrix id; 6 speed plans x GOMAXPROCS 1/2/4/16; thorough under the race detector",
         "schedules sampled, not enumerated; polygon function is a deterministic fake (10 % real SnapPolygon)",
         "runtime monitor: history checker over event logs of fake targets"),
 "C11": ("4 C11", "every pipeline run (1-48 fake targets, 6 speed plans, GOMAXPROCS 1-16, one table that runs longer than 10 s) under the Go race detector; completion flags after a slow final flush, event-log loss/duplication/order, state-based goroutine-leak monitor and state-based deadlock monitor (the Go runtime does not report deadlocks in race builds), plus runs of the race-built real binary on generated multi-table GeoPackages",
         "'always returns' = returned on every schedule produced; wall-clock watchdog only inconclusive; distinct interleaving signatures reported",
         "Go race detector + completion/leak/deadlock monitors"),
 "C12": ("4 C12", "read-back oracle (plain sqlite3) over files written by the real TargetGeopackage for every (count, page size) of an enumerated grid plus random ones: rows, order, attributes, geometry, R-tree entries and boxes, recorded extent, schema, geometry registration, srs",
         "hook H1's pure-Go ST_* functions stand in for SpatiaLite in the R-tree triggers",
         "runtime monitor: read-back oracle over written files"),
 "C13": ("4 C13", "end-to-end differential oracle: the real binary on generated GeoPackages vs snap.SnapPolygon called in-process; exact file set, tables, rows, geometry, copies, overwrite, failure modes; thorough also with the race-built binary",
         "expectation defined by the library (as the statement says); hook H1 replaces SpatiaLite; source geometries taken as stored (GeoPackage blob round trip)",
         "runtime monitor: binary-vs-library differential oracle"),
}


NOT_YET = {}

def main():
    props = [json.loads(l) for l in open(os.path.join(ROOT, "properties.jsonl"))]
    hooks_commits = subprocess.run(["git", "-C", "/repo", "log", "--format=%h %s", "--grep=^verif hook"], capture_output=True, text=True).stdout.strip().splitlines()
    m = {
        "version": 1,
        "setup_cmd": "./check --setup",
        "hooks": {
            "guard": "verif",
            "enable": "go build -tags verif (the harness module in /verif/harness replaces github.com/pdok/texel by /repo, so every check compiles /repo's current working tree)",
            "baseline_off_cmd": "cd /repo && go test -vet=off -count=1 ./...",
            "source_commits": hooks_commits,
            "add_only": True,
        },
        "engines": [
            {"name": "vcheck", "path": "harness/cmd/vcheck", "serves_properties": [p for p in CHECKS if p not in ("C12", "C13")], "kind_free_text": "pure-Go runtime monitors: generated workloads -> real texel API -> exact oracles; 16 worker processes, case logged before execution"},
            {"name": "vgpkg", "path": "harness/cmd/vgpkg", "serves_properties": [p for p in CHECKS if p in ("C12", "C13")], "kind_free_text": "cgo driver (hook H1) for the GeoPackage writer and the real texel binary"},
        ],
        "checks": [],
        "not_applicable": [],
        "notes": "Technique family: runtime monitoring and sanitizers. Exit 0 held / 1 VIOLATION / 3 inconclusive (never on the unchanged tree). Known findings: KNOWN_FINDINGS.txt. See DESIGN.md.",
    }
    for p in props:
        pid = p["id"]
        if pid in CHECKS:
            ref, text, note, tech = CHECKS[pid]
            m["checks"].append({
                "property_id": pid,
                "quick_cmd": f"./check {pid} quick",
                "thorough_cmd": f"./check {pid} thorough",
                "evidence_file": f"evidence/{pid}.json",
                "replay_cmd_template": f"./check {pid} --replay {{path}}",
                "engine": "vgpkg" if pid in ("C12", "C13") else "vcheck",
                "level_claimed": {"category": "exploration", "text": text, "design_ref": "DESIGN.md section " + ref},
                "level_note": note,
                "technique": tech,
            })
        else:
            m["not_applicable"].append({"property_id": pid, "reason": NOT_YET.get(pid, "check not built yet in this session (runtime monitor designed in DESIGN.md section 4); not claimed until it runs clean")})
    json.dump(m, open(os.path.join(ROOT, "MANIFEST.json"), "w"), indent=1)
    print("wrote MANIFEST.json:", len(m["checks"]), "checks,", len(m["not_applicable"]), "not claimed")

main()
