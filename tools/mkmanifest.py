#!/usr/bin/env python3
"""Writes /verif/MANIFEST.json from the table below (kept in one place so it stays valid)."""
import json, os, subprocess
ROOT = os.path.dirname(os.path.dirname(os.path.abspath(__file__)))

CHECKS = {
 "C01": ("4 C01", "exact pairwise proper-crossing oracle over the return value of snap.SnapPolygon for generated valid polygons (10 hostile generators, dyadic/RD/WebMercator/ETRS89 grids, all flags)",
         "explores executions only: windows <= 13 pixels, <= 25 vertices per ring; validity and crossings decided on the tool's 1e-10 integer coordinates; known finding KF-F5 (invented edge at multiplicity >= 3) is suppressed by signature only",
         "runtime monitor: exact crossing oracle on SnapPolygon output"),
 "C02": ("4 C02", "reference-model monitor: SnapClosestPoints and non-collapsing SnapPolygon results compared element-by-element with an exact rational closed-segment/half-open-pixel router; the 3x3-pixel quarter-lattice window is enumerated completely in the thorough tier",
         "hot pixels are those of the inserted points; random part samples, only the window sub-space is exhaustive",
         "runtime monitor: exact routing reference model"),
 "C04": ("4 C04", "exact half-pixel tube test for every output edge, hot-pixel test for every vertex, and coverage equivalence on half-pixel lattice samples farther than one pixel from the input boundary",
         "Chebyshev distance for the one-pixel filter; sample lattice capped at 40x40 per polygon and matrix; KF-F5 suppressed by signature",
         "runtime monitor: exact tube / coverage oracle"),
 "C18": ("4 C18", "exact big-integer signed-area conservation, edge provenance (routed edge or straight run) and hole-in-shell test whenever the oracle's routed boundary has multiplicity <= 2",
         "routed boundary computed by the C02 oracle; cases with multiplicity >= 3 are counted but not judged, as the property states",
         "runtime monitor: exact conservation oracle"),
}
NOT_YET = {}

def main():
    props = [json.loads(l) for l in open(os.path.join(ROOT, "properties.jsonl"))]
    hooks_commits = subprocess.run(["git", "-C", "/repo", "log", "--format=%h %s", "--grep=^verif hook"], capture_output=True, text=True).stdout.strip().splitlines()
    m = {
        "version": 1,
        "setup_cmd": "./check --setup",
        "hooks": {
            "guard": "verif",
            "enable": "go build -tags verif (the harness module in /verif/harness replaces github.com/pdok/texel by /repo, so every check compiles /repo's current working tree)",
            "baseline_off_cmd": "cd /repo && go test -vet=off -count=1 ./...",
            "source_commits": hooks_commits,
            "add_only": True,
        },
        "engines": [
            {"name": "vcheck", "path": "harness/cmd/vcheck", "serves_properties": [p for p in CHECKS if p not in ("C12", "C13")], "kind_free_text": "pure-Go runtime monitors: generated workloads -> real texel API -> exact oracles; 16 worker processes, case logged before execution"},
            {"name": "vgpkg", "path": "harness/cmd/vgpkg", "serves_properties": [p for p in CHECKS if p in ("C12", "C13")], "kind_free_text": "cgo driver (hook H1) for the GeoPackage writer and the real texel binary"},
        ],
        "checks": [],
        "not_applicable": [],
        "notes": "Technique family: runtime monitoring and sanitizers. Exit 0 held / 1 VIOLATION / 3 inconclusive (never on the unchanged tree). Known findings: KNOWN_FINDINGS.txt. See DESIGN.md.",
    }
    for p in props:
        pid = p["id"]
        if pid in CHECKS:
            ref, text, note, tech = CHECKS[pid]
            m["checks"].append({
                "property_id": pid,
                "quick_cmd": f"./check {pid} quick",
                "thorough_cmd": f"./check {pid} thorough",
                "evidence_file": f"evidence/{pid}.json",
                "replay_cmd_template": f"./check {pid} --replay {{path}}",
                "engine": "vgpkg" if pid in ("C12", "C13") else "vcheck",
                "level_claimed": {"category": "exploration", "text": text, "design_ref": "DESIGN.md section " + ref},
                "level_note": note,
                "technique": tech,
            })
        else:
            m["not_applicable"].append({"property_id": pid, "reason": NOT_YET.get(pid, "check not built yet in this session (runtime monitor designed in DESIGN.md section 4); not claimed until it runs clean")})
    json.dump(m, open(os.path.join(ROOT, "MANIFEST.json"), "w"), indent=1)
    print("wrote MANIFEST.json:", len(m["checks"]), "checks,", len(m["not_applicable"]), "not claimed")

main()
