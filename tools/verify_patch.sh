#!/usr/bin/env bash
# tools/verify_patch.sh <seeded dir (patch.diff + demo files)> <demo command...>
# Confirms a seeded change in a fresh scratch worktree of /repo: builds, suite passes with the change,
# demo fails with / passes without the change. The worktree is removed afterwards.
set -u
export GOFLAGS=-mod=mod GOPROXY=off GOSUMDB=off GOTOOLCHAIN=local
src="$(cd "$1" && pwd)"; shift
wt="/tmp/vm_$$"
git -C /repo worktree add -q --detach "$wt" HEAD || exit 2
trap 'git -C /repo worktree remove --force "$wt"' EXIT
cd "$wt" || exit 2
mkdir DEMO && cp -r "$src"/. DEMO/ && rm -f DEMO/meta.json
git apply DEMO/patch.diff || { echo "PATCH DOES NOT APPLY"; exit 2; }
git diff --stat | tail -2
go build ./... && go build -tags verif ./... && echo "BUILD ok" || echo "BUILD FAILED"
git checkout -q go.mod 2>/dev/null
go test -vet=off -count=1 ./... 2>&1 | grep -v "no test files" | sed 's/^/  suite: /'
"$@" >/tmp/demo_with.txt 2>&1; echo "demo WITH change: exit $? ; $(tail -1 /tmp/demo_with.txt | cut -c1-200)"
git checkout -q go.mod 2>/dev/null
git apply -R DEMO/patch.diff
"$@" >/tmp/demo_without.txt 2>&1; echo "demo WITHOUT change: exit $? ; $(tail -1 /tmp/demo_without.txt | cut -c1-200)"
