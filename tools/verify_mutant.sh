#!/usr/bin/env bash
# tools/verify_mutant.sh <worktree with the change applied and DEMO/> <demo command...>
# confirms: builds, suite passes with the change, demo fails with / passes without the change.
set -u
export GOFLAGS=-mod=mod GOPROXY=off GOSUMDB=off GOTOOLCHAIN=local
wt="$1"; shift
cd "$wt" || exit 2
git checkout -q go.mod 2>/dev/null
git diff --stat | tail -3
go build ./... && go build -tags verif ./... && echo "BUILD ok" || echo "BUILD FAILED"
git checkout -q go.mod 2>/dev/null
go test -vet=off -count=1 ./... 2>&1 | grep -v "no test files" | sed 's/^/  suite: /'
"$@" >/tmp/demo_with.txt 2>&1; echo "demo WITH change: exit $? ; $(tail -1 /tmp/demo_with.txt | cut -c1-200)"
# (no git stash: the stash is shared between all worktrees of a repository)
git diff > /tmp/verify_mutant_$$.diff
git apply -R /tmp/verify_mutant_$$.diff
"$@" >/tmp/demo_without.txt 2>&1; echo "demo WITHOUT change: exit $? ; $(tail -1 /tmp/demo_without.txt | cut -c1-200)"
git checkout -q go.mod 2>/dev/null; git apply /tmp/verify_mutant_$$.diff; rm -f /tmp/verify_mutant_$$.diff
git checkout -q go.mod 2>/dev/null
git status --short | head -5
