#!/usr/bin/env bash
# tools/try_mutant.sh <patch.diff> <tier> <ID>...   apply a seeded change to /repo, run the listed checks, undo it.
set -u
patch="$1"; tier="$2"; shift 2
cd /repo || exit 2
if [ -n "$(git status --porcelain)" ]; then echo "/repo not clean"; exit 2; fi
git apply "$patch" || { echo "patch does not apply"; exit 2; }
cd /verif
# evidence files written while /repo carries a seeded change must not survive: keep the committed ones
SAVE=$(mktemp -d /tmp/evsave-XXXXXX); cp -a evidence/. "$SAVE/"
trap 'git -C /repo checkout -- . ; git -C /repo clean -fdq -- . ; rm -rf /verif/evidence; mkdir -p /verif/evidence; cp -a "$SAVE"/. /verif/evidence/; rm -rf "$SAVE"' EXIT
for id in "$@"; do
  out=$(./check "$id" "$tier" 2>&1); rc=$?
  echo "== $id $tier exit=$rc"
  echo "$out" | grep -E "^VIOLATION|^  class=|INCONCLUSIVE|BUILD FAILED|seed=" | cut -c1-400 | head -12
done
