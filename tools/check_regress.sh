#!/usr/bin/env bash
# tools/check_regress.sh  - for every `fixed:` entry of KNOWN_FINDINGS.txt: the regression cases must violate on the tree
# just before the fix commit and hold on /repo's HEAD. (Scratch worktrees are removed again; evidence files are not touched
# by --replay.)
set -u
cd /verif
grep '^fixed:' KNOWN_FINDINGS.txt | while read -r line; do
  prop=$(echo "$line" | sed -n 's/.*property=\([A-Z0-9]*\).*/\1/p')
  commit=$(echo "$line" | awk '{print $3}')
  files=$(echo "$line" | sed -n 's/.*regress=\([^ ]*\).*/\1/p' | tr ',' ' ')
  [ -z "$files" ] && { echo "$prop $commit: no regression file (covered by the check itself)"; continue; }
  wt=/tmp/regress_$$
  git -C /repo worktree add -q --detach "$wt" "${commit}^" || continue
  # the harness needs the verifhook package as it is today (hook H4 is younger than most fixes): overlay it, nothing else
  mkdir -p "$wt/verifhook" && cp /repo/verifhook/*.go "$wt/verifhook/"
  for f in $files; do
    before=$(VERIF_REPO=$wt ./check "$prop" --replay "$f" 2>&1 | grep -c '^VIOLATION')
    after=$(./check "$prop" --replay "$f" 2>&1 | grep -c '^VIOLATION')
    verdict=OK; { [ "$before" -ge 1 ] && [ "$after" -eq 0 ]; } || verdict="UNEXPECTED"
    echo "$prop $commit $f: before fix violations=$before, on HEAD=$after  $verdict"
  done
  git -C /repo worktree remove --force "$wt"
done
