#!/usr/bin/env python3
"""Fills the seeded-change table of DESIGN.md (between markers) from seeded/*/meta.json."""
import json, glob, os, re
ROOT=os.path.dirname(os.path.dirname(os.path.abspath(__file__)))
rows=[]
for f in sorted(glob.glob(os.path.join(ROOT,'seeded/*/meta.json'))):
    m=json.load(open(f))
    det='; '.join(f"{k}: {v}" for k,v in m.get('detected_by',{}).items()) or '**not detected**'
    st = f" *[{m['status']}]*" if m.get('status') else ''
    rows.append(f"| `{m['id']}` ({m['property']}): {m['change']}{st} | {m['needs']} | {det} |")
p=os.path.join(ROOT,'DESIGN.md')
s=open(p).read()
begin='| seeded change | what it needs to manifest | caught by (quick tier, seed 1) |\n|---|---|---|\n'
a=s.index(begin)+len(begin)
b=s.index('\n\n', a)
s=s[:a]+'\n'.join(rows)+s[b:]
open(p,'w').write(s)
print(len(rows),'rows')
